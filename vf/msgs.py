# Bridges between reference message dicts (vf/ref/trxd.py) and the repository's
# real TxMsg / RxMsg objects.  Field *comparison* is done here by the harness.

from array import array

from vf import common
from vf.ref import trxd

common.use_toolkit()
import data_msg  # noqa: E402  (the real code under test)

_MOD_BY_NAME = {
	"GMSK": "ModGMSK", "8PSK": "Mod8PSK", "GMSK_AB": "ModGMSK_AB",
	"16QAM": "Mod16QAM", "32QAM": "Mod32QAM", "AQPSK": "ModAQPSK",
}
_NAME_BY_MOD = {v: k for k, v in _MOD_BY_NAME.items()}


def real_mod(name):
	return getattr(data_msg.Modulation, _MOD_BY_NAME[name])


def to_real(m):
	""" Build the repository's message object from a reference dict.  Fields
	    absent from the dict are left at the class defaults (None). """
	if m["dir"] == "tx":
		o = data_msg.TxMsg(fn = m.get("fn"), tn = m.get("tn"), ver = m.get("ver"))
		o.pwr = m.get("pwr")
		o.burst = None if m.get("bits") is None else bytearray(m["bits"])
		return o
	o = data_msg.RxMsg(fn = m.get("fn"), tn = m.get("tn"), ver = m.get("ver"))
	o.rssi = m.get("rssi")
	o.toa256 = m.get("toa256")
	if "nope" in m:
		o.nope_ind = bool(m["nope"])
	if m.get("mod") is not None:
		o.mod_type = real_mod(m["mod"]) if m["mod"] in _MOD_BY_NAME else m["mod"]
	elif "mod" in m:
		o.mod_type = None
	o.tsc_set = m.get("tsc_set")
	o.tsc = m.get("tsc")
	o.ci = m.get("ci")
	o.burst = None if m.get("soft") is None else array('b', m["soft"])
	return o


def from_real(o):
	""" Extract a reference-style dict from a repository message object. """
	if isinstance(o, data_msg.TxMsg):
		return {"dir": "tx", "ver": o.ver, "fn": o.fn, "tn": o.tn, "pwr": o.pwr,
			"bits": None if o.burst is None else bytes(o.burst)}
	m = {"dir": "rx", "ver": o.ver, "fn": o.fn, "tn": o.tn, "rssi": o.rssi,
	     "toa256": o.toa256, "nope": bool(o.nope_ind),
	     "soft": None if o.burst is None else list(o.burst)}
	if o.ver == 0 and o.burst is not None:
		# not carried by a version-0 header: guessed from the burst length by the decoder
		m["mod_guess"] = _NAME_BY_MOD.get(getattr(o.mod_type, "name", None))
	if o.ver >= 1:
		m["ci"] = o.ci
		if not o.nope_ind:
			m["mod"] = _NAME_BY_MOD.get(getattr(o.mod_type, "name", None))
			m["tsc_set"] = o.tsc_set
			m["tsc"] = o.tsc
	return m


def diff(a, b):
	""" Field-wise comparison on the fields the protocol *defines* for the
	    message (a is the reference).  Returns the list of differing fields. """
	out = []
	keys = ["dir", "ver", "fn", "tn"]
	if a["dir"] == "tx":
		keys += ["pwr", "bits"]
	else:
		keys += ["rssi", "toa256", "soft"]
		if a["ver"] >= 1:
			keys += ["nope", "ci"]
			if not a.get("nope"):
				keys += ["mod", "tsc_set", "tsc"]
	for k in keys:
		va, vb = a.get(k), b.get(k)
		if k == "nope":
			va, vb = bool(va), bool(vb)
		if k == "soft" and va is not None and vb is not None:
			va, vb = list(va), list(vb)
		if k == "bits" and va is not None and vb is not None:
			va, vb = bytes(va), bytes(vb)
		if va != vb:
			out.append(k)
	return out

# sim - builds the repository's real FakeTRX / Transceiver / Application objects
# on vnet, with harness-owned L1 endpoints, a log-record capture and helpers
# to drive the socket-thread entry points and the clock tick.

import contextlib
import io
import logging
import random
import sys
import threading

from vf import common, vnet, vclock

common.use_toolkit()
import udp_link      # noqa: E402
import fake_trx      # noqa: E402
import transceiver   # noqa: E402
import burst_fwd     # noqa: E402
import clck_gen      # noqa: E402
import fake_pm       # noqa: E402
import app_common    # noqa: E402
import data_msg      # noqa: E402


class LogCapture(logging.Handler):
	def __init__(self):
		logging.Handler.__init__(self, level = logging.DEBUG)
		self.records = []
		self.keep = ("WARNING", "ERROR", "CRITICAL")
		self.low_records = 0

	def emit(self, record):
		if record.levelname not in self.keep:
			# debug / info records (the application's default level is DEBUG): formatted like a real handler would, dropped
			self.low_records += 1
			record.getMessage()
			return
		if record.levelname in self.keep:
			try:
				self.records.append((record.levelname, record.getMessage()))
			except Exception:
				self.records.append((record.levelname, str(record.msg)))

	def take(self):
		out, self.records = self.records, []
		return out


_capture = None


def capture_logging(debug = False):
	""" Route the toolkit's log records into a capture buffer (no output).  debug: root level DEBUG as the real
	    application sets it by default (every log.debug / log.info statement is then executed and formatted) instead
	    of WARNING. """
	global _capture
	root = logging.getLogger()
	for h in list(root.handlers):
		root.removeHandler(h)
	if _capture is None:
		_capture = LogCapture()
	root.addHandler(_capture)
	root.setLevel(logging.DEBUG if debug else logging.WARNING)
	return _capture


class Node:
	""" One transceiver plus the L1 endpoints the harness plays for it. """

	def __init__(self, world, trx, remote_addr, base_port, child_idx, has_clck):
		self.world = world
		self.trx = trx
		self.name = trx.name or ("%s:%d/%d" % (remote_addr, base_port, child_idx))
		net = world.net
		self.l1_ctrl = net.endpoint(remote_addr, base_port + 101 + 2 * child_idx)
		self.l1_data = net.endpoint(remote_addr, base_port + 102 + 2 * child_idx)
		self.l1_clck = net.endpoint(remote_addr, base_port + 100) if has_clck else None
		self.ctrl_port = (world.bind_addr, base_port + 1 + 2 * child_idx)
		self.data_port = (world.bind_addr, base_port + 2 + 2 * child_idx)

	# -- socket-thread entry points of the real code --
	def ctrl_raw(self, payload):
		""" Send one datagram to the CTRL socket, run the real handler, and
		    return the list of reply payloads that reached the L1 endpoint. """
		self.l1_ctrl.sendto(payload, self.ctrl_port)
		self.trx.ctrl_if.handle_rx()
		return [d for d, _ in self.l1_ctrl.take_all()]

	def ctrl(self, text):
		""" 'POWERON' -> status code (int) of the single reply, or raises. """
		rsp = self.ctrl_raw(("CMD " + text + "\0").encode())
		if len(rsp) != 1:
			raise common.HarnessError("expected one reply to %r, got %r" % (text, rsp))
		try:
			parts = rsp[0].rstrip(b"\0").decode().split(" ")
			return int(parts[2])
		except (ValueError, IndexError, UnicodeDecodeError):
			raise common.HarnessError("reply to %r is not 'RSP <verb> <status> ...': %r" % (text, rsp[0][:60]))

	def data_raw(self, payload):
		""" Send one datagram to the DATA socket and run the real receive path.
		    Returns what recv_data_msg returned (message object or None). """
		self.l1_data.sendto(payload, self.data_port)
		return self.trx.recv_data_msg()

	def rx_data(self):
		""" Datagrams delivered to this node's L1 DATA endpoint since last call. """
		return [d for d, _ in self.l1_data.take_all()]

	def rx_clck(self):
		return [d for d, _ in self.l1_clck.take_all()] if self.l1_clck else []


class World:
	def __init__(self, seed = 0, bind_addr = "127.0.0.1"):
		self.net = vnet.Net()
		vnet.attach(udp_link, self.net)
		self.bind_addr = bind_addr
		self.nodes = []
		# a third of the worlds run at the application's default log level
		self.debug_log = seed % 3 == 0
		self.log = capture_logging(self.debug_log)
		self.log.take()
		random.seed(seed)
		self.trx_list = fake_trx.TRXList()
		self.fwd = None  # built after the first add (TRXList copies an empty list)
		self.fake_pm = None

	def add(self, remote_addr, base_port, cls = None, child_idx = 0, parent = None,
	        clck_gen = None, pwr_meas = None, **kw):
		cls = cls or fake_trx.FakeTRX
		trx = cls(self.bind_addr, remote_addr, base_port, child_idx = child_idx,
			clck_gen = clck_gen, pwr_meas = pwr_meas, **kw)
		self.trx_list.add_trx(trx)
		if not self.net.bind_log:
			raise common.HarnessError("vnet is not attached: the transceiver bound no socket on it (udp_link no longer uses `socket.socket`?)")
		if self.fwd is None:
			self.fwd = burst_fwd.BurstForwarder(self.trx_list.trx_list)
		if parent is not None:
			parent.trx.child_trx_list.add_trx(trx)
		node = Node(self, trx, remote_addr, base_port, child_idx, clck_gen is not None)
		self.nodes.append(node)
		return node

	def tick(self, fn):
		""" What Application.clck_handler does for one TDMA frame. """
		for trx in self.trx_list.trx_list:
			trx.clck_tick(self.fwd, fn)


# ---------------------------------------------------------------------------
# The whole application in-process

class NothingBound(common.HarnessError):
	""" The application created its sockets on the in-memory network but bound none of them. """


THREAD_ERRORS = []     # uncaught exceptions of threads started by the code under test


def _thread_excepthook(args):
	import traceback
	tb = traceback.extract_tb(args.exc_traceback) if args.exc_traceback else []
	where = next(("%s:%d" % (f.filename.rsplit("/", 1)[-1], f.lineno) for f in reversed(tb) if f.filename.startswith(common.REPO)), "?")
	THREAD_ERRORS.append("%s: %s (at %s)" % (args.exc_type.__name__, args.exc_value, where))


threading.excepthook = _thread_excepthook


class AppWorld:
	""" fake_trx.Application() instantiated for real, on vnet, with the clock
	    generator's real thread running on a gated virtual clock. """

	def __init__(self, argv, seed = 0, gated = True):
		self.net = vnet.Net()
		vnet.attach(udp_link, self.net)
		self.debug_log = seed % 3 == 0
		self.log = capture_logging(self.debug_log)
		self.log.take()
		random.seed(seed)
		self.vt = vclock.VTime()
		clck_gen.time = self.vt
		old_argv = sys.argv
		old_init = app_common.ApplicationBase.app_init_logging
		app_common.ApplicationBase.app_init_logging = lambda self_, argv_: None
		import signal
		old_sigint = signal.getsignal(signal.SIGINT)
		try:
			sys.argv = ["fake_trx.py"] + list(argv)
			with contextlib.redirect_stdout(io.StringIO()):
				self.app = fake_trx.Application()
		finally:
			sys.argv = old_argv
			app_common.ApplicationBase.app_init_logging = old_init
			signal.signal(signal.SIGINT, old_sigint)
		capture_logging(self.debug_log)
		self.app_binds = list(self.net.bind_log)     # sockets bound by the application itself
		if not self.app_binds:
			sm = getattr(self.net, "sm", None)
			if sm is not None and sm.created:
				raise NothingBound("the application created %d sockets and bound none of them" % sm.created)
			raise common.HarnessError("vnet is not attached: the application bound no socket on it")
		self.gen = self.app.clck_gen
		self.breaker = vclock.VEvent(self.vt, gated = gated)
		if not vclock.attach(clck_gen, self.gen, self.vt, self.breaker):
			raise common.HarnessError("cannot identify the clock generator's stop event")
		self.nodes = []
		for trx in self.app.trx_list.trx_list:
			has_clck = trx.clck_gen is not None
			self.nodes.append(Node(self, trx, trx.remote_addr, trx.base_port, trx.child_idx, has_clck))

	@property
	def bind_addr(self):
		return self.app.argv.trx_bind_addr

	def run_ticks(self, n):
		if not self.gen.running:
			return True
		ok = self.breaker.release(n, alive = self.worker_alive)
		if ok and n > 0 and self.breaker.waits == 0:
			raise common.HarnessError("virtual clock is not attached: the generator runs but never waits on the harness event")
		return ok

	def worker_alive(self):
		""" Is the clock generator's worker thread still there?  (found by type, whatever it is called) """
		ths = [v for v in vars(self.gen).values() if isinstance(v, threading.Thread)]
		return any(t.is_alive() for t in ths) if ths else True

	def shutdown(self):
		try:
			self.app.shutdown()
		except Exception:
			pass


def restore_time():
	import time
	clck_gen.time = time


def ctrl_if_time_virtual():
	""" FAKE_TRXC_DELAY makes ctrl_if sleep before replying: keep that virtual. """
	import ctrl_if
	import time as real
	vt = vclock.VTime()
	n = 0
	for name, val in list(vars(ctrl_if).items()):
		if val is real or isinstance(val, vclock.VTime):
			setattr(ctrl_if, name, vt)
			n += 1
		elif val is real.sleep or getattr(val, "__self__", None).__class__ is vclock.VTime and getattr(val, "__name__", "") == "sleep":
			setattr(ctrl_if, name, vt.sleep)
			n += 1
	return vt if n else None


_restore_time_orig = restore_time


def restore_time():
	import time
	import ctrl_if
	clck_gen.time = time
	for name, val in list(vars(ctrl_if).items()):
		if isinstance(val, vclock.VTime):
			setattr(ctrl_if, name, time)
		elif getattr(val, "__self__", None).__class__ is vclock.VTime:
			setattr(ctrl_if, name, time.sleep)

# vnet - process-local UDP network.  Replaces the name `socket` inside the
# repository's udp_link module (and `select` inside fake_trx for run-loop
# workloads).  Every datagram is logged: the log is the observed boundary of
# the simulator ("datagrams written to each transceiver's DATA socket").
#
# Semantics kept from UDP: datagram boundaries, FIFO per socket, recvfrom(n)
# truncates to n octets, sending to an unbound port loses the datagram, a
# non-blocking recvfrom on an empty socket raises BlockingIOError.

import threading


class StopLoop(BaseException):
	""" Raised by VSelect.select to make Application.run() return. """


class VSock:
	def __init__(self, net):
		self.net = net
		self.addr = None
		self.q = []
		self.closed = False
		self.rx_count = 0
		self.trunc_count = 0
		self.peer = None            # set by connect(): a connected UDP socket
		self.icmp_error = False     # a datagram of a connected socket hit a port nobody listens on

	# --- socket API used by udp_link / data_if / ctrl_if ---
	def setsockopt(self, *a):
		pass

	def setblocking(self, flag):
		pass

	def settimeout(self, t):
		pass

	def gettimeout(self):
		return 0.0

	def getsockopt(self, *a):
		return 0

	def shutdown(self, how):
		pass

	def __enter__(self):
		return self

	def __exit__(self, *a):
		self.close()

	def recv_into(self, buf, nbytes = 0):
		data = self.recv(nbytes or len(buf))
		buf[:len(data)] = data
		return len(data)

	def recvfrom_into(self, buf, nbytes = 0):
		data, src = self.recvfrom(nbytes or len(buf))
		buf[:len(data)] = data
		return len(data), src

	def bind(self, addr):
		host, port = addr
		if port == 0:
			self.net.ephemeral += 1
			port = self.net.ephemeral
		key = (host, port)
		if key in self.net.bound and not self.net.bound[key].closed:
			# SO_REUSEADDR on UDP lets a second bind succeed, but then delivery
			# is ambiguous: record it, the port plan oracle (C12) reports it.
			self.net.double_binds.append(key)
		self.addr = key
		self.net.bound[key] = self
		self.net.bind_log.append(key)

	def getsockname(self):
		return self.addr if self.addr else ("0.0.0.0", 0)

	def close(self):
		self.closed = True
		if self.addr and self.net.bound.get(self.addr) is self:
			del self.net.bound[self.addr]

	def fileno(self):
		return id(self) & 0xffff

	def sendto(self, data, remote):
		if not isinstance(data, (bytes, bytearray, memoryview)):
			raise TypeError("a bytes-like object is required")
		self.net.deliver(self, bytes(data), (remote[0], remote[1]))
		return len(data)

	def connect(self, remote):
		""" UDP connect(): fixes the destination, filters the source - and makes the kernel report
		    ICMP port-unreachable on a later call (Linux semantics). """
		self.peer = (remote[0], remote[1])
		if self.addr is None:
			self.bind(("127.0.0.1", 0))

	def send(self, data):
		if self.peer is None:
			raise OSError(89, "Destination address required")
		if self.icmp_error:
			self.icmp_error = False
			raise ConnectionRefusedError(111, "Connection refused")
		n = self.sendto(data, self.peer)
		return n

	def recv(self, n):
		return self.recvfrom(n)[0]

	def recvfrom(self, n):
		if self.peer is not None and self.icmp_error:
			self.icmp_error = False
			raise ConnectionRefusedError(111, "Connection refused")
		with self.net.cond:
			if not self.q:
				raise BlockingIOError(11, "Resource temporarily unavailable")
			data, src = self.q.pop(0)
		self.rx_count += 1
		if len(data) > n:
			self.trunc_count += 1
			self.net.truncated += 1
			data = data[:n]
		return data, src

	# --- harness side ---
	def pending(self):
		return len(self.q)

	def take_all(self):
		with self.net.cond:
			out, self.q = self.q, []
		return out


class Net:
	def __init__(self):
		self.bound = {}
		self.bind_log = []
		self.double_binds = []
		self.ephemeral = 40000
		self.log = []         # (seq, src_addr, dst_addr, payload, delivered)
		self.seq = 0
		self.lost = 0
		self.truncated = 0
		self.cond = threading.Condition()
		self.keep_log = True
		self.tap = None       # optional callable(src, dst, payload)

	def socket_module(self):
		self.sm = VSocketModule(self)
		return self.sm

	def lookup(self, dst):
		s = self.bound.get(dst)
		if s is None:
			s = self.bound.get(("0.0.0.0", dst[1]))
		if s is None:
			# a socket bound to a specific address also receives what is sent
			# to that port via the wildcard only if addresses match; nothing else
			return None
		return s

	def deliver(self, src_sock, data, dst):
		src = src_sock.addr or ("0.0.0.0", 0)
		s = self.lookup(dst)
		with self.cond:
			self.seq += 1
			if self.keep_log:
				self.log.append((self.seq, src, dst, data, s is not None))
			if s is None:
				self.lost += 1
				if src_sock.peer is not None:
					src_sock.icmp_error = True       # reported by the next call on that socket
			else:
				s.q.append((data, src))
				self.cond.notify_all()
		if self.tap is not None:
			self.tap(src, dst, data)

	def endpoint(self, addr, port):
		""" A harness-owned socket (an L1 endpoint). """
		s = VSock(self)
		s.bind((addr, port))
		return s

	def clear_log(self):
		self.log = []


class VSocketModule:
	AF_INET = 2
	SOCK_DGRAM = 2
	SOL_SOCKET = 1
	SO_REUSEADDR = 2

	def __init__(self, net):
		self.net = net
		self.created = 0

	def socket(self, family = 2, type = 2, *a):
		self.created += 1
		return VSock(self.net)

	# also usable where the code imported the class itself (`from socket import socket`)
	def __call__(self, family = 2, type = 2, *a):
		return self.socket(family, type, *a)


class VSelect:
	""" Stand-in for the `select` module inside fake_trx: blocks until one of
	    the sockets has a datagram, or raises StopLoop when asked to stop. """

	def __init__(self, net):
		self.net = net
		self.stop = False
		self.idle = threading.Event()
		self.calls = 0
		self.ready_returns = 0     # how often select() has reported something readable

	def select(self, rlist, wlist, xlist, timeout = None):
		with self.net.cond:
			while True:
				self.calls += 1
				self.last = rlist
				ready = [s for s in rlist if s.q]
				if ready:
					self.idle.clear()
					self.ready_returns += 1
					return ready, [], []
				self.idle.set()
				if self.stop:
					raise StopLoop()
				self.net.cond.wait(0.05)

	# also usable where the code imported the function itself (`from select import select`)
	def __call__(self, rlist, wlist, xlist, timeout = None):
		return self.select(rlist, wlist, xlist, timeout)

	def request_stop(self):
		with self.net.cond:
			self.stop = True
			self.net.cond.notify_all()


def attach(module, net):
	""" Put the in-memory network in place of whatever the module uses to create sockets:
	    the `socket` module under any name, or the `socket.socket` class imported directly. """
	import socket as real
	sm = net.socket_module()
	n = 0
	for name, val in list(vars(module).items()):
		if val is real or val is real.socket or isinstance(val, VSocketModule):
			setattr(module, name, sm)
			n += 1
	return n


def attach_select(module, vs):
	""" Same for the `select` module / the `select.select` function. Returns what was replaced. """
	import select as real
	saved = {}
	for name, val in list(vars(module).items()):
		if val is real or val is real.select or isinstance(val, VSelect):
			saved[name] = val
			setattr(module, name, vs)
	return saved


def detach(module, saved):
	for name, val in saved.items():
		setattr(module, name, val)

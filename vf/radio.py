# radio - the metadata / suppression oracle for one forwarded burst, shared by
# C02, C05, C10, C14 and C18, and a Bench that keeps a reference TRXC model
# (vf/ref/trxc.py) in step with every real transceiver it configures.
#
# All expectations come from the property statements; randomised values are
# checked as windows.

from vf import common, sim
from vf.ref import trxd, trxc, tsc as tscref, hopping

NOISE = {"rssi": -110, "toa256": 0, "ci": -30}


def hop(hsn, maio, n, fn):
	return hopping.mai(hsn, maio, n, fn)[0]


class Budget:
	""" Remaining FAKE_DROP amount as an interval [lo, hi]: the statement does
	    not say whether a burst that is muted anyway consumes budget. """

	def __init__(self):
		self.lo = self.hi = 0
		self.period = 1

	def set(self, n, p):
		self.lo = self.hi = n
		self.period = p

	def matches(self, fn):
		return fn % self.period == 0


def expected(snd, rcv, budget, m, bits):
	""" What recipient `rcv` (already known to be running and tuned to the
	    sender) must receive for burst m (ref dict, dir tx) from sender `snd`.
	    Returns a dict:
	      kind: "burst" | "nope" | "none" | "burst-or-drop" (ambiguous budget)
	      plus the expected fields / windows. """
	muted = snd.muted or rcv.muted
	e = {"ver": rcv.ver, "fn": m["fn"], "tn": m["tn"]}
	would_drop = budget.matches(m["fn"])
	if muted:
		if would_drop and budget.hi > 0:
			budget.lo = max(0, budget.lo - 1)      # may or may not consume
		e["kind"] = "nope" if rcv.ver >= 1 else "none"
		e["cause"] = "mute"
		return e
	if would_drop and budget.hi > 0:
		if budget.lo > 0:
			budget.lo -= 1
			budget.hi -= 1
			e["kind"] = "nope" if rcv.ver >= 1 else "none"
			e["cause"] = "drop"
			return e
		e["ambiguous_budget"] = True            # resolved by observation
	# a regular burst
	e["kind"] = "burst"
	if rcv.fake_rssi:
		e["rssi"] = (rcv.rssi_base - rcv.rssi_thr, rcv.rssi_base + rcv.rssi_thr)
	else:
		v = snd.nominal - snd.tx_att - m["pwr"] - trxc.PATH_LOSS
		e["rssi"] = (v, v)
	lo = rcv.toa_base - rcv.toa_thr - 256 * snd.ta
	hi = rcv.toa_base + rcv.toa_thr - 256 * snd.ta
	e["toa256"] = (lo, hi)
	e["soft"] = [-127 if b else 127 for b in bits]
	if rcv.ver >= 1:
		e["ci"] = (rcv.ci_base - rcv.ci_thr, rcv.ci_base + rcv.ci_thr)
		e["mod"] = "GMSK" if len(bits) == 148 else "8PSK"
		if len(bits) == 148:
			ids = tscref.identify(bits)
			if ids:
				e["tsc_any_of"] = sorted({t for _, t in ids})
				e["tsc_set"] = 0
	return e


def in_range(e):
	""" (certainly_valid, possibly_valid) of the metadata windows w.r.t. the
	    protocol ranges (outside them nothing may be sent, C13). """
	rng = [("rssi", -120, -47), ("toa256", -32768, 32767)]
	if e["ver"] >= 1:
		rng.append(("ci", -1280, 1280))
	certainly = all(lo_ >= a and hi_ <= b for (k, a, b) in rng for (lo_, hi_) in [e[k]])
	possibly = all(hi_ >= a and lo_ <= b for (k, a, b) in rng for (lo_, hi_) in [e[k]])
	return certainly, possibly


def check(e, datagrams, budget = None):
	""" Compare the datagrams delivered to a recipient's L1 DATA endpoint for
	    one transmitted burst with the expectation.  Returns None or a string. """
	if e["kind"] == "none":
		if datagrams:
			return "suppressed burst (%s) produced %d datagram(s) on a version-0 link" % (e["cause"], len(datagrams))
		return None
	if e["kind"] == "nope":
		if len(datagrams) != 1:
			return "suppressed burst (%s) produced %d datagrams on a version-1 link, expected exactly one NOPE indication" % (e["cause"], len(datagrams))
		try:
			d = trxd.decode(datagrams[0], "rx")
		except ValueError as x:
			return "undecodable NOPE datagram (%s)" % x
		if d["ver"] != 1 or not d.get("nope"):
			return "suppressed burst (%s) delivered as a normal burst" % e["cause"]
		if d.get("soft") is not None:
			return "NOPE indication carries burst octets"
		for k in ("fn", "tn"):
			if d[k] != e[k]:
				return "NOPE indication with %s=%r, expected %r" % (k, d[k], e[k])
		for k, v in NOISE.items():
			if d[k] != v:
				return "NOPE indication with %s=%r, expected the noise level %r" % (k, d[k], v)
		return None
	# regular burst
	certainly, possibly = in_range(e)
	if e.get("ambiguous_budget") and budget is not None:
		# budget could be exhausted or not: learn from what happened
		if len(datagrams) == 1:
			try:
				d0 = trxd.decode(datagrams[0], "rx")
			except ValueError:
				d0 = {}
			if d0.get("nope"):
				budget.hi -= 1
				budget.lo = max(0, budget.lo - 1)
				return None
			budget.hi = budget.lo = 0
		elif len(datagrams) == 0 and e["ver"] == 0:
			budget.hi -= 1
			return None
	if len(datagrams) == 0:
		if certainly:
			return "burst not delivered although all simulated values are inside their protocol ranges"
		return None
	if len(datagrams) > 1:
		return "%d copies delivered to one recipient" % len(datagrams)
	if not possibly:
		return "a datagram was sent although a simulated value lies outside its protocol range (C13: nothing may be sent)"
	raw = datagrams[0]
	try:
		d = trxd.decode(raw, "rx")
	except ValueError as x:
		return "undecodable datagram (%s)" % x
	if d["ver"] != e["ver"]:
		return "header version %d, recipient negotiated %d" % (d["ver"], e["ver"])
	if d.get("nope"):
		return "NOPE indication for a burst that must be forwarded"
	hl = 8 if e["ver"] == 0 else 11
	body = len(raw) - hl
	want_body = len(e["soft"]) + (2 if e["ver"] == 0 else 0)
	if body != want_body:
		return "burst part has %d octets, expected %d (%s)" % (body, want_body,
			"version 0 is followed by two legacy padding octets" if e["ver"] == 0 else "no padding on version 1")
	if e["ver"] == 0 and raw[-2:] != b"\0\0":
		return "legacy padding octets are not zero"
	for k in ("fn", "tn"):
		if d[k] != e[k]:
			return "%s=%r, sender transmitted %r" % (k, d[k], e[k])
	if d.get("soft") is None or list(d["soft"]) != e["soft"]:
		n = next((i for i, (a, b) in enumerate(zip(d.get("soft") or [], e["soft"])) if a != b), None)
		return "soft bits differ from the transmitted hard bits (first at %r)" % n
	for k in ("rssi", "toa256") + (("ci",) if e["ver"] >= 1 else ()):
		lo, hi = e[k]
		if not lo <= d[k] <= hi:
			return "%s=%d outside [%d, %d]" % (k, d[k], lo, hi)
	if e["ver"] >= 1:
		if d.get("mod") != e["mod"]:
			return "modulation %r, expected %r for %d bits" % (d.get("mod"), e["mod"], len(e["soft"]))
		if "tsc_any_of" in e:
			if d.get("tsc") not in e["tsc_any_of"] or d.get("tsc_set") != e["tsc_set"]:
				return "TSC %r / set %r, burst carries training sequence %r of set %r" % (
					d.get("tsc"), d.get("tsc_set"), e["tsc_any_of"], e["tsc_set"])
	return d


class Bench:
	""" Real transceivers on vnet, each shadowed by a reference model that is
	    driven only by the commands sent and the replies' status codes. """

	def __init__(self, seed, specs):
		""" specs: list of dicts {base_port, child_of (index) | None, child_idx, pm: bool} """
		self.world = sim.World(seed)
		self.pm = sim.fake_pm.FakePM(-120, -105, -75, -50)
		self.pm.trx_list = self.world.trx_list
		self.nodes = []
		self.models = []
		self.budgets = []
		for i, sp in enumerate(specs):
			parent = self.nodes[sp["child_of"]] if sp.get("child_of") is not None else None
			node = self.world.add("127.0.0.1", sp["base_port"], child_idx = sp.get("child_idx", 0),
				parent = parent, pwr_meas = self.pm if sp.get("pm", True) else None,
				child_mgt = sp.get("child_mgt", True), name = sp.get("name"))
			mdl = trxc.Trx(sp.get("name") or str(i), has_pm = sp.get("pm", True),
				child_idx = sp.get("child_idx", 0), child_mgt = sp.get("child_mgt", True))
			if parent is not None:
				self.models[sp["child_of"]].children.append(mdl)
			self.nodes.append(node)
			self.models.append(mdl)
			self.budgets.append(Budget())

	@classmethod
	def from_app(cls, aw):
		""" Shadow the transceivers of a real fake_trx.Application (sim.AppWorld). """
		b = cls.__new__(cls)
		b.world = aw
		b.app = aw.app
		b.nodes = aw.nodes
		b.models = []
		b.budgets = []
		by_trx = {}
		for node in aw.nodes:
			t = node.trx
			# documented wiring, not read from the object: every parent powers its children with itself, except the
			# MS side (the application's second transceiver)
			m = trxc.Trx(str(t), has_pm = t.pwr_meas is not None, child_idx = t.child_idx,
				child_mgt = len(b.models) != 1, has_clock = t.clck_gen is not None)
			by_trx[id(t)] = m
			b.models.append(m)
			b.budgets.append(Budget())
		b.orphans = []
		for node in aw.nodes:
			for c in node.trx.child_trx_list.trx_list:
				if id(c) not in by_trx:
					# a child hangs on its parent but is not in the application's own transceiver list
					b.orphans.append(str(c))
					continue
				by_trx[id(node.trx)].children.append(by_trx[id(c)])
		return b

	def tick(self, fn):
		if getattr(self, "app", None) is not None:
			self.app.clck_handler(fn)
		else:
			self.world.tick(fn)

	def cmd(self, i, text):
		""" Send a well-formed command; returns (real status, model status).
		    The model's drop budget is kept in step. """
		parts = text.split(" ")
		st = self.nodes[i].ctrl(text)
		mst, _ = trxc.apply(self.models[i], parts[0], parts[1:], self.models)
		if parts[0] == "FAKE_DROP" and mst == 0 and len(parts) in (2, 3):
			self.budgets[i].set(self.models[i].drop_amount, self.models[i].drop_period)
		return st, mst

	def recipients(self, s, fn):
		""" Indices of the transceivers that must receive what s transmits in fn. """
		snd = self.models[s]
		f = snd.tx_freq_hz(fn, hop)
		out = []
		for j, t in enumerate(self.models):
			if j == s or not t.running:
				continue
			if t.rx_freq_hz(fn, hop) == f and f is not None:
				out.append(j)
		return out

	def transmit(self, s, m):
		""" Feed one L1->TRX datagram to transceiver s and run the tick of its frame.
		    Returns (accepted by recv_data_msg, {recipient index: [datagrams]}). """
		for n in self.nodes:
			n.rx_data()
		acc = self.nodes[s].data_raw(trxd.encode(m))
		self.tick(m["fn"])
		return acc is not None, {j: n.rx_data() for j, n in enumerate(self.nodes)}

# Frozen copies of the GSM training sequences of 3GPP TS 45.002 (normal burst
# TSC set 1, table 5.2.3a; synchronization burst, table 5.2.5-3; access burst,
# tables 5.2.7-3/-4) and their positions inside a 148-bit burst.  Does not
# import the repository's tables: a changed entry there shows up as a
# disagreement.

NB = {
	0: "00100101110000100010010111",
	1: "00101101110111100010110111",
	2: "01000011101110100100001110",
	3: "01000111101101000100011110",
	4: "00011010111001000001101011",
	5: "01001110101100000100111010",
	6: "10100111110110001010011111",
	7: "11101111000100101110111100",
}
SB = {
	0: "1011100101100010000001000000111100101101010001010111011000011011",
	1: "1110111001101011001010000011111011110100011111101100101100010101",
	2: "1110110000110111010100010101101001111000000100000010001101001110",
	3: "1011101000111101110101101111010010001011010000001000111010011000",
}
AB = {
	0: "01001011011111111001100110101010001111000",
	1: "01010100111110001000011000101111001001101",
	2: "11101111001001110101011000001101101110111",
	3: "10001000111010111011010000010000101100010",
	4: "11001001110001001110000000001101010110010",
	5: "01010000111111110101110101101100110010100",
	6: "01011110011101011110110100010011000010111",
	7: "01000010110000011101001010111011100010000",
}
POS = {"NB": 61, "SB": 42, "AB": 8}
TABLES = {"NB": NB, "SB": SB, "AB": AB}


def bits(s):
	return bytes(int(c) for c in s)


def place(kind, tsc, r):
	""" A 148-bit burst of the given kind carrying training sequence `tsc`,
	    everything else random (harness-built, independent of RandBurstGen). """
	seq = bits(TABLES[kind][tsc])
	b = bytearray(r.getrandbits(1) for _ in range(148))
	b[POS[kind]:POS[kind] + len(seq)] = seq
	return bytes(b)


def identify(burst):
	""" All (kind, tsc) whose training sequence is present at its position. """
	out = []
	for kind, tab in TABLES.items():
		p = POS[kind]
		for tsc, s in tab.items():
			if bytes(burst[p:p + len(s)]) == bits(s):
				out.append((kind, tsc))
	return out

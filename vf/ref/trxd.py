# Reference TRXD (v0/v1) layout codec and validity predicate, written from the
# property statements (C01, C04, C13) and the TRXD protocol description.
# Imports nothing from the repository.
#
# A message is a plain dict:
#   Tx: {"dir": "tx", "ver", "fn", "tn", "pwr", "bits": bytes of 0/1 or None}
#   Rx: {"dir": "rx", "ver", "fn", "tn", "rssi", "toa256", "nope", "mod", "tsc_set",
#        "tsc", "ci", "soft": list of ints -127..127 or None}

import struct

HYPERFRAME = 2715648

# name -> (4-bit coding with the TSC-set bits clear, burst length, number of TSC sets)
MODS = {
	"GMSK":    (0b0000, 148, 4),
	"8PSK":    (0b0100, 444, 2),
	"GMSK_AB": (0b0110, 148, 2),
	"16QAM":   (0b1000, 592, 2),
	"32QAM":   (0b1010, 740, 2),
	"AQPSK":   (0b1100, 296, 2),
}
KNOWN_VERSIONS = (0, 1)


def is_int(x):
	return isinstance(x, int) and not isinstance(x, bool)


def valid(m):
	""" True iff every field lies in its protocol range (statement of C13). """
	if m.get("ver") not in KNOWN_VERSIONS:
		return False
	if not is_int(m.get("fn")) or not 0 <= m["fn"] <= HYPERFRAME - 1:
		return False
	if not is_int(m.get("tn")) or not 0 <= m["tn"] <= 7:
		return False
	if m["dir"] == "tx":
		if not is_int(m.get("pwr")) or not 0 <= m["pwr"] <= 255:
			return False
		if m.get("bits") is None or len(m["bits"]) not in (148, 444):
			return False
		return True
	if not is_int(m.get("rssi")) or not -120 <= m["rssi"] <= -47:
		return False
	if not is_int(m.get("toa256")) or not -32768 <= m["toa256"] <= 32767:
		return False
	if m["ver"] == 0:
		if m.get("soft") is None or len(m["soft"]) not in (148, 444):
			return False
		return True
	# version 1
	if not is_int(m.get("ci")) or not -1280 <= m["ci"] <= 1280:
		return False
	if m.get("nope"):
		return m.get("soft") is None
	# a message whose modulation was never set carries the documented default (GMSK);
	# an explicit None / unknown value is invalid
	mod = m.get("mod", "GMSK")
	if mod not in MODS:
		return False
	m = dict(m, mod = mod)
	nsets = MODS[m["mod"]][2]
	if not is_int(m.get("tsc_set")) or not 0 <= m["tsc_set"] < nsets:
		return False
	if not is_int(m.get("tsc")) or not 0 <= m["tsc"] <= 7:
		return False
	if m.get("soft") is None or len(m["soft"]) != MODS[m["mod"]][1]:
		return False
	return True


def mts_octet(m):
	if m.get("nope"):
		return 0x80
	return ((MODS[m.get("mod", "GMSK")][0] | m["tsc_set"]) << 3) | m["tsc"]


def encode(m, legacy = False):
	""" Octets the layout prescribes for a valid message. """
	out = bytearray()
	out.append((m["ver"] << 4) | m["tn"])
	out += struct.pack(">I", m["fn"])
	if m["dir"] == "tx":
		out.append(m["pwr"])
		out += bytes(m["bits"])
	else:
		out.append(-m["rssi"])
		out += struct.pack(">h", m["toa256"])
		if m["ver"] >= 1:
			out.append(mts_octet(m))
			out += struct.pack(">h", m["ci"])
		if m.get("soft") is not None:
			out += bytes(127 - s for s in m["soft"])
	if legacy and m["ver"] == 0:
		out += b"\x00\x00"
	return bytes(out)


def decode_mts(o):
	""" -> (nope, mod name or None for reserved, tsc_set, tsc) """
	if o & 0x80:
		return (True, None, None, None)
	tsc = o & 7
	code = (o >> 3) & 0xf
	if code & 0b1100 == 0:
		return (False, "GMSK", code & 3, tsc)
	base = code & 0b1110
	for name, (c, _, _) in MODS.items():
		if c == base and name != "GMSK":
			return (False, name, code & 1, tsc)
	return (False, None, code & 1, tsc)


def soft_of(octet):
	# 0..254 -> +127..-127; 255 is outside the layout (clamped by receivers)
	return -127 if octet == 255 else 127 - octet


def decode(d, direction):
	""" Interpret a datagram per the layout.  Returns the dict of the fields
	    the layout defines; raises ValueError where the layout has no reading
	    (too short / unknown version).  'partial' is set when the burst part
	    has no defined reading (odd length, reserved modulation). """
	if len(d) < 5:
		raise ValueError("short")
	ver = d[0] >> 4
	if ver not in KNOWN_VERSIONS:
		raise ValueError("version")
	m = {"dir": direction, "ver": ver, "tn": d[0] & 7,
	     "fn": struct.unpack(">I", d[1:5])[0]}
	if direction == "tx":
		if len(d) < 6:
			raise ValueError("short")
		m["pwr"] = d[5]
		body = d[6:]
		if len(body) == 0:
			m["bits"] = None
		elif len(body) >= 444:
			m["bits"] = bytes(body[:444])
		elif len(body) >= 148:
			m["bits"] = bytes(body[:148])
		else:
			m["bits"] = bytes(body)
			m["partial"] = True
		return m
	hl = 8 if ver == 0 else 11
	if len(d) < hl:
		raise ValueError("short")
	m["rssi"] = -d[5]
	m["toa256"] = struct.unpack(">h", d[6:8])[0]
	body = d[hl:]
	if ver == 0:
		m["nope"] = False
		if len(body) == 0:
			m["soft"] = None
		elif len(body) in (148, 150):
			m["soft"] = [soft_of(o) for o in body[:148]]
		elif len(body) in (444, 446):
			m["soft"] = [soft_of(o) for o in body[:444]]
		else:
			m["partial"] = True
		return m
	nope, mod, tsc_set, tsc = decode_mts(d[8])
	m["nope"] = nope
	m["ci"] = struct.unpack(">h", d[9:11])[0]
	if not nope:
		m["mod"], m["tsc_set"], m["tsc"] = mod, tsc_set, tsc
		if mod is None:
			m["partial"] = True
	if len(body) == 0:
		m["soft"] = None
	else:
		m["soft"] = [soft_of(o) for o in body]
	return m


# ---------------------------------------------------------------------------
# Generators (shared by C01, C04, C13, C15, C17)

FN_EDGE = [0, 1, 255, 256, 65535, 65536, 2**21 - 1, 2**21, HYPERFRAME - 2, HYPERFRAME - 1,
	1325, 1326, 51 * 26 * 1024]


def rand_fn(r):
	if r.random() < 0.35:
		return r.choice(FN_EDGE)
	return r.randrange(HYPERFRAME)


def rand_edge(r, lo, hi, extra = ()):
	x = r.random()
	if x < 0.3:
		return r.choice([lo, lo + 1, hi - 1, hi] + list(extra))
	return r.randint(lo, hi)


def rand_bits(r, n):
	k = r.randrange(6)
	if k == 0:
		return bytes(n)
	if k == 1:
		return bytes([1]) * n
	if k == 2:
		return bytes((i + r.randrange(2)) & 1 for i in range(n))[:n]
	if k == 3:
		b = bytearray(n)
		b[r.randrange(n)] = 1
		return bytes(b)
	v = r.getrandbits(n)
	return bytes((v >> i) & 1 for i in range(n))


def rand_soft(r, n):
	k = r.randrange(6)
	if k == 0:
		return [r.choice((-127, 127))] * n
	if k == 1:
		return [((i * 7 + r.randrange(255)) % 255) - 127 for i in range(n)]
	if k == 2:
		s = [0] * n
		for pos in (0, n - 1, r.randrange(n)):
			s[pos] = r.randint(-127, 127)
		return s
	raw = r.randbytes(n)
	return [(b % 255) - 127 for b in raw]


def rand_tx(r, ver = None, n = None):
	return {"dir": "tx", "ver": r.choice(KNOWN_VERSIONS) if ver is None else ver,
		"fn": rand_fn(r), "tn": r.randrange(8),
		"pwr": rand_edge(r, 0, 255),
		"bits": rand_bits(r, n or r.choice((148, 148, 444)))}


def rand_rx(r, ver = None, nope = None, mod = None):
	ver = r.choice(KNOWN_VERSIONS) if ver is None else ver
	m = {"dir": "rx", "ver": ver, "fn": rand_fn(r), "tn": r.randrange(8),
	     "rssi": rand_edge(r, -120, -47), "toa256": rand_edge(r, -32768, 32767, (0, -1, 1)),
	     "nope": False}
	if ver == 0:
		m["soft"] = rand_soft(r, r.choice((148, 148, 444)))
		# (not carried by the header: version 0 knows normal GMSK and 8-PSK bursts only)
		m["mod"] = "GMSK" if len(m["soft"]) == 148 else "8PSK"
		return m
	m["ci"] = rand_edge(r, -1280, 1280, (0, -1, 1))
	if nope is None:
		nope = r.random() < 0.15
	if nope:
		m["nope"] = True
		m["soft"] = None
		return m
	mod = mod or r.choice(list(MODS))
	m["mod"] = mod
	m["tsc_set"] = r.randrange(MODS[mod][2])
	m["tsc"] = r.randrange(8)
	m["soft"] = rand_soft(r, MODS[mod][1])
	return m


def rand_msg(r):
	return rand_tx(r) if r.random() < 0.4 else rand_rx(r)


def all_mts_triples():
	for mod, (_, _, nsets) in MODS.items():
		for s in range(nsets):
			for t in range(8):
				yield (mod, s, t)


def key(m, legacy = None):
	""" Compact hashable identity of a message (for distinct counting). """
	body = m.get("bits") if m["dir"] == "tx" else (None if m.get("soft") is None else bytes(s & 0xff for s in m["soft"]))
	return hash((m["dir"], m["ver"], m["fn"], m["tn"], m.get("pwr"), m.get("rssi"),
		m.get("toa256"), m.get("nope"), m.get("mod"), m.get("tsc_set"), m.get("tsc"),
		m.get("ci"), body, legacy))


def brief(m):
	""" Sample-friendly rendering (burst shortened). """
	o = dict(m)
	for k in ("bits", "soft"):
		if o.get(k) is not None:
			o[k + "_len"] = len(o[k])
			o[k] = list(o[k][:12])
	return o


# ---------------------------------------------------------------------------
# PDU-level layouts (C17): versions 0, 1 and 2, both directions, written from
# the TRXD protocol description.  Values are dicts with the field names the
# statement uses: ver tn fn rssi toa256 cir nope mod tsc pwr scpir batch shadow
# trxn soft-bits / hard-bits pad bpdu.

def mod_burst_len(mod):
	""" burst length for the 4-bit modulation/TSC-set code; None = reserved """
	if mod >> 2 == 0b00:
		return 148
	if mod >> 2 == 0b11:
		return 296
	if mod >> 1 == 0b010:
		return 444
	if mod >> 1 == 0b100:
		return 592
	if mod >> 1 == 0b101:
		return 740
	if mod == 0b0110:
		return 148
	return None


def _hdr0(ver, tn, spare = 0):
	return bytes([(ver << 4) | (spare << 3) | tn])


def _mts(v):
	return bytes([(v["nope"] << 7) | (v["mod"] << 3) | v["tsc"]])


def pdu_encode(kind, v):
	bits_key = "soft-bits" if kind.endswith("rx") else "hard-bits"
	if kind == "v0rx":
		return _hdr0(0, v["tn"]) + struct.pack(">I", v["fn"]) + bytes([-v["rssi"]]) + struct.pack(">h", v["toa256"]) \
			+ bytes(v["soft-bits"]) + bytes(v.get("pad", b""))
	if kind in ("v0tx", "v1tx"):
		return _hdr0(int(kind[1]), v["tn"]) + struct.pack(">I", v["fn"]) + bytes([v["pwr"]]) + bytes(v["hard-bits"])
	if kind == "v1rx":
		out = _hdr0(1, v["tn"]) + struct.pack(">I", v["fn"]) + bytes([-v["rssi"]]) + struct.pack(">h", v["toa256"]) \
			+ _mts(v) + struct.pack(">h", v["cir"])
		if not v["nope"]:
			out += bytes(v["soft-bits"])
		return out

	def part(p, first):
		o = bytearray()
		o.append(((2 << 4) if first else 0) | p["tn"])
		o.append((p["batch"] << 7) | ((0 if first else p["shadow"]) << 6) | p["trxn"])
		o += _mts(p)
		if kind == "v2rx":
			o.append(-p["rssi"])
			o += struct.pack(">h", p["toa256"])
			o += struct.pack(">h", p["cir"])
		else:
			o.append(p["pwr"])
			o += struct.pack(">b", p["scpir"])
			o += b"\0\0\0"
		if first:
			o += struct.pack(">I", p["fn"])
		if not p["nope"]:
			o += bytes(p[bits_key])
		return bytes(o)
	return part(v, True) + b"".join(part(p, False) for p in v.get("bpdu", []))


def rand_pdu(r, kind, nsub = None, mod = None, nope = None):
	def burst(n):
		return r.randbytes(n)
	v = {"tn": r.randrange(8), "fn": r.choice((0, 1, HYPERFRAME - 1, 2**32 - 1, r.randrange(2**32)))}
	if kind in ("v0rx", "v1rx", "v2rx"):
		v["rssi"] = -r.choice((0, 1, 47, 110, 120, 255, r.randrange(256)))
		v["toa256"] = r.choice((-32768, 32767, 0, -1, r.randint(-32768, 32767)))
	if kind == "v0rx":
		v["soft-bits"] = burst(r.choice((148, 444)))
		v["pad"] = r.choice((b"", b"\0\0"))
		return v
	if kind in ("v0tx", "v1tx"):
		v["pwr"] = r.randrange(256)
		v["hard-bits"] = bytes(r.getrandbits(1) for _ in range(r.choice((148, 444))))
		return v

	def mts(p):
		p["nope"] = int(r.random() < 0.2) if nope is None else nope
		p["mod"] = r.choice([m for m in range(16) if m != 0b0111]) if mod is None else mod
		p["tsc"] = r.randrange(8)
		if not p["nope"]:
			p["soft-bits" if kind.endswith("rx") else "hard-bits"] = burst(mod_burst_len(p["mod"]))
	if kind == "v1rx":
		v["cir"] = r.choice((-1280, 1280, 0, -32768, 32767, r.randint(-2000, 2000)))
		mts(v)
		return v

	def part(p, first):
		p["batch"] = r.getrandbits(1)
		p["trxn"] = r.choice((0, 1, 63, r.randrange(64)))
		if not first:
			p["tn"] = r.randrange(8)
			p["shadow"] = r.getrandbits(1)
		if kind == "v2rx":
			p["rssi"] = -r.randrange(256)
			p["toa256"] = r.randint(-32768, 32767)
			p["cir"] = r.randint(-32768, 32767)
		else:
			p["pwr"] = r.randrange(256)
			p["scpir"] = r.choice((-128, 127, 0, r.randint(-128, 127)))
		mts(p)
		return p
	part(v, True)
	n = r.randint(0, 8) if nsub is None else nsub
	v["bpdu"] = [part({}, False) for _ in range(n)]
	return v

# Reference hopping sequence generation, 3GPP TS 45.002 section 6.2.3.
# Written from the standard; RNTABLE is a frozen copy of table 6 (does not
# import the repository's tables).

RNTABLE = (
	 48,  98,  63,   1,  36,  95,  78, 102,  94,  73,
	  0,  64,  25,  81,  76,  59, 124,  23, 104, 100,
	101,  47, 118,  85,  18,  56,  96,  86,  54,   2,
	 80,  34, 127,  13,   6,  89,  57, 103,  12,  74,
	 55, 111,  75,  38, 109,  71, 112,  29,  11,  88,
	 87,  19,   3,  68, 110,  26,  33,  31,   8,  45,
	 82,  58,  40, 107,  32,   5, 106,  92,  62,  67,
	 77, 108, 122,  37,  60,  66, 121,  42,  51, 126,
	117, 114,   4,  90,  43,  52,  53, 113, 120,  72,
	 16,  49,   7,  79, 119,  61,  22,  84,   9,  97,
	 91,  15,  21,  24,  46,  39,  93, 105,  65,  70,
	125,  99,  17, 123,
)
assert len(RNTABLE) == 114

SUPERFRAME = 26 * 51


def mai(hsn, maio, n, fn):
	""" Mobile Allocation Index for frame fn; second value tells whether the
	    deviation branch (M' >= N) was taken. """
	if hsn == 0:
		return (fn + maio) % n, False
	t1r = (fn // SUPERFRAME) % 64
	t2 = fn % 26
	t3 = fn % 51
	nbin = n.bit_length()          # integer(log2(N) + 1)
	mod = 1 << nbin
	m = t2 + RNTABLE[(hsn ^ t1r) + t3]
	mp = m % mod
	tp = t3 % mod
	if mp < n:
		return (mp + maio) % n, False
	return (((mp + tp) % n) + maio) % n, True


def reduced_point(n, x, t2, t3, v = 0):
	""" The deterministic choice of (hsn, maio, fn) for a point of the reduced
	    space; must match c/drivers/hop_drv.c. """
	hsn = ((x * 7 + t2 + n + v * 13) % 63) + 1
	t1r = hsn ^ x
	k = (t3 + n + v * 5) % 32
	t1 = t1r + 64 * k
	maio = (x * 5 + t2 * 3 + t3 + v * 11) % 64
	r = (t2 * 51 * 25 + t3 * 26 * 2) % 1326
	return hsn, maio, t1 * SUPERFRAME + r

# Reference TRXC (control protocol) state machine for one simulated
# transceiver, written from the statement of C05 and the protocol
# documentation.  Imports nothing from the repository.
#
# status() returns (status, results) where status may be an int, or a
# ("range", lo, hi) tuple for values the simulator draws at random.

KNOWN_VERSIONS = (0, 1)

NOMINAL_TX_POWER = 50
PATH_LOSS = 110


class Trx:
	def __init__(self, name, has_pm = True, child_idx = 0, child_mgt = True, has_clock = False):
		self.name = name
		self.has_pm = has_pm
		self.child_idx = child_idx
		self.child_mgt = child_mgt
		self.has_clock = has_clock
		self.children = []
		self.running = False
		self.rx_khz = None
		self.tx_khz = None
		self.fh = None              # (hsn, maio, [(rx_khz, tx_khz), ...])
		self.ver = 0
		self.muted = False
		self.tx_att = 0
		self.nominal = NOMINAL_TX_POWER
		self.ta = 0
		self.toa_base, self.toa_thr = 0, 0
		self.rssi_base, self.rssi_thr = NOMINAL_TX_POWER - 0 - PATH_LOSS, 0
		self.fake_rssi = False
		self.ci_base, self.ci_thr = 90, 0
		self.drop_amount, self.drop_period = 0, 1
		self.trxc_delay_ms = 0
		self.queue_cleared = 0      # number of POWEROFFs that emptied the queue (observers use it)

	# ---- helpers ----
	@property
	def ready(self):
		return (self.rx_khz is not None and self.tx_khz is not None) or self.fh is not None

	def managed(self):
		if self.child_mgt and self.child_idx == 0:
			return [self] + list(self.children)
		return [self]

	def rx_freq_hz(self, fn, hop):
		""" hop(hsn, maio, n, fn) -> MAI """
		if self.fh is None:
			return None if self.rx_khz is None else self.rx_khz * 1000
		hsn, maio, ma = self.fh
		return ma[hop(hsn, maio, len(ma), fn)][0] * 1000

	def tx_freq_hz(self, fn, hop):
		if self.fh is None:
			return None if self.tx_khz is None else self.tx_khz * 1000
		hsn, maio, ma = self.fh
		return ma[hop(hsn, maio, len(ma), fn)][1] * 1000


def is_intlit(s):
	""" What counts as a well-formed integer argument. """
	if not s:
		return False
	t = s[1:] if s[0] in "+-" else s
	return t.isdigit()


def apply(trx, verb, args, all_trx = ()):
	""" Apply one well-formed command (all args integer literals) to the model.
	    Returns (status, results): results is a list of strings or
	    [("range", lo, hi)] for a randomised value. """
	a = [int(x) for x in args]
	n = len(a)
	if verb == "POWERON" and n == 0:
		if trx.running or not trx.ready:
			return -1, None
		for t in trx.managed():
			t.running = True
		return 0, None
	if verb == "POWEROFF" and n == 0:
		for t in trx.managed():
			t.running = False
			t.fh = None
			t.queue_cleared += 1
		return 0, None
	if verb == "RXTUNE" and n == 1:
		trx.rx_khz = a[0]
		return 0, None
	if verb == "TXTUNE" and n == 1:
		trx.tx_khz = a[0]
		return 0, None
	if verb == "MEASURE" and n == 1:
		if not trx.has_pm:
			return -1, None
		hz = a[0] * 1000
		for t in all_trx:
			if t.running and t.fh is None and t.tx_khz is not None and t.tx_khz * 1000 == hz:
				return 0, [("range", -75, -50)]
		return 0, [("range", -120, -105)]
	if verb == "SETFH" and n >= 4:
		hsn, maio = a[0], a[1]
		f = a[2:]
		ma = list(zip(f[0::2], f[1::2]))
		if not 0 <= hsn <= 63:
			return ("either", 0, -1), None     # the statement does not define HSN outside 0..63 here
		trx.fh = (hsn, maio, ma)
		return 0, None
	if verb == "SETFORMAT" and n == 1:
		v = a[0]
		if v < 0 or v > 15:
			return -1, None
		if v in KNOWN_VERSIONS:
			trx.ver = v
			return v, None
		lower = [k for k in KNOWN_VERSIONS if k <= v]
		return (max(lower) if lower else -1), None
	if verb == "SETPOWER" and n == 1:
		trx.tx_att = a[0]
		return 0, None
	if verb == "NOMTXPOWER" and n == 0:
		return 0, [str(trx.nominal)]
	if verb == "RFMUTE" and n == 1:
		trx.muted = a[0] > 0
		return 0, None
	if verb == "SETTA" and n == 1:
		trx.ta = a[0]
		return 0, None
	if verb == "FAKE_TOA" and n == 2:
		trx.toa_base, trx.toa_thr = a
		return 0, None
	if verb == "FAKE_TOA" and n == 1:
		trx.toa_base += a[0]
		return 0, None
	if verb == "FAKE_RSSI" and n == 2:
		if a[1] < 0:
			trx.fake_rssi = False
			return 0, None
		trx.rssi_base, trx.rssi_thr = a
		trx.fake_rssi = True
		return 0, None
	if verb == "FAKE_RSSI" and n == 1:
		trx.rssi_base += a[0]
		return 0, None
	if verb == "FAKE_CI" and n == 2:
		trx.ci_base, trx.ci_thr = a
		return 0, None
	if verb == "FAKE_CI" and n == 1:
		trx.ci_base += a[0]
		return 0, None
	if verb == "FAKE_DROP" and n == 1:
		if a[0] < 0:
			return -1, None
		trx.drop_amount, trx.drop_period = a[0], 1
		return 0, None
	if verb == "FAKE_DROP" and n == 2:
		if a[0] < 0 or a[1] <= 0:
			return -1, None
		trx.drop_amount, trx.drop_period = a
		return 0, None
	if verb == "FAKE_TRXC_DELAY" and n == 1:
		trx.trxc_delay_ms = a[0]
		return 0, None
	# unknown verb, or a known verb with an argument count it does not take
	return 0, None


def parse_response(payload):
	""" b'RSP VERB STATUS ARGS...\\0' -> (verb, status:int, rest tokens) or None """
	if not payload.endswith(b"\0"):
		return None
	try:
		txt = payload[:-1].decode("utf-8")
	except UnicodeDecodeError:
		return None
	if "\0" in txt:
		return None
	p = txt.split(" ")
	if len(p) < 3 or p[0] != "RSP":
		return None
	try:
		st = int(p[2])
	except ValueError:
		return None
	return p[1], st, p[3:]

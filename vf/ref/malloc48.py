# Reference decoder for the Mobile Allocation IE, 3GPP TS 44.018 10.5.2.21:
# bit i (i = 0 is the least significant bit of the LAST octet) selects the
# (i+1)-th channel of the cell allocation sorted by ascending ARFCN with
# ARFCN 0 last.  Written from the property statement.

def order(ca):
	return sorted(a for a in ca if a != 0) + ([0] if 0 in ca else [])


def decode(ca, ma):
	""" -> (ok, hopping list).  ok False = rejected (IE longer than 8 octets). """
	n = len(ma)
	if n > 8:
		return False, None
	lst = order(ca)
	out = []
	for i in range(n * 8):
		if (ma[n - 1 - (i >> 3)] >> (i & 7)) & 1:
			if i >= len(lst):
				break      # a bit pointing beyond the cell allocation ends decoding
			out.append(lst[i])
	return True, out

# Reference multiframe mapping: frozen start frames from 3GPP TS 45.002 clause 7
# (tables 1, 3, 4, 5 and 6) and the pairing between firmware multiframe tasks and
# trxcon (channel combination, logical channel, direction).  Imports nothing
# from the repository.

# residues are modulo P (102 for the 51-multiframe based channels, 104 for the
# 26/52-multiframe based ones)

def _exp(frames, period, P):
	return frozenset(f + k * period for f in frames for k in range(P // period))

CLAUSE7 = {}
def _put(lchan, direction, frames, period, P):
	CLAUSE7[(lchan, direction)] = (P, _exp([f % period for f in frames], period, P))

# control channels: first frame of each 4-burst block
_put("BCCH", "dl", [2], 51, 102)
_put("CCCH/noncombined", "dl", [6, 12, 16, 22, 26, 32, 36, 42, 46], 51, 102)
_put("CCCH/combined", "dl", [6, 12, 16], 51, 102)
for n, (dl, sdl) in enumerate(zip([22, 26, 32, 36], [42, 46, 93, 97])):
	_put("SDCCH4_%d" % n, "dl", [dl], 51, 102)
	_put("SDCCH4_%d" % n, "ul", [dl + 15], 51, 102)
	_put("SACCH4_%d" % n, "dl", [sdl], 102, 102)
	_put("SACCH4_%d" % n, "ul", [sdl + 15], 102, 102)
for n in range(8):
	dl = 4 * n
	sdl = [32, 36, 40, 44, 83, 87, 91, 95][n]
	_put("SDCCH8_%d" % n, "dl", [dl], 51, 102)
	_put("SDCCH8_%d" % n, "ul", [dl + 15], 51, 102)
	_put("SACCH8_%d" % n, "dl", [sdl], 102, 102)
	_put("SACCH8_%d" % n, "ul", [sdl + 15], 102, 102)
_put("SDCCH4_CBCH", "dl", [32], 51, 102)
_put("SDCCH8_CBCH", "dl", [8], 51, 102)
# traffic channels: every frame owned
_tchf = [f for f in range(26) if f not in (12, 25)]
for d in ("dl", "ul"):
	_put("TCHF", d, _tchf, 26, 104)
	_put("SACCHTF/even", d, [12], 26, 104)
	_put("SACCHTF/odd", d, [25], 26, 104)
	_put("TCHH_0", d, [0, 2, 4, 6, 8, 10, 13, 15, 17, 19, 21, 23], 26, 104)
	_put("TCHH_1", d, [1, 3, 5, 7, 9, 11, 14, 16, 18, 20, 22, 24], 26, 104)
	_put("SACCHTH_0", d, [12], 26, 104)
	_put("SACCHTH_1", d, [25], 26, 104)
_put("PDTCH", "dl", [0, 4, 8, 13, 17, 21, 26, 30, 34, 39, 43, 47], 52, 104)

# trxcon channel combinations that must have a layout for every timeslot
COMBINATIONS = ["GSM_PCHAN_NONE", "GSM_PCHAN_CCCH", "GSM_PCHAN_CCCH_SDCCH4", "GSM_PCHAN_CCCH_SDCCH4_CBCH",
	"GSM_PCHAN_SDCCH8_SACCH8C", "GSM_PCHAN_SDCCH8_SACCH8C_CBCH", "GSM_PCHAN_TCH_F", "GSM_PCHAN_TCH_H",
	"GSM_PCHAN_PDCH"]

# bursts per block (burst id cycle) of trxcon logical channels; others: 4
SINGLE = {"L1SCHED_IDLE", "L1SCHED_FCCH", "L1SCHED_SCH", "L1SCHED_RACH"}
TWO = {"L1SCHED_TCHH_0", "L1SCHED_TCHH_1"}

ALL_TN = list(range(8))


def pairs():
	""" (firmware task, firmware set, sacch flag, [(trxcon config, tns)], trxcon lchan,
	     direction, mode, clause-7 key) """
	out = []
	C, C4, C4C = "GSM_PCHAN_CCCH", "GSM_PCHAN_CCCH_SDCCH4", "GSM_PCHAN_CCCH_SDCCH4_CBCH"
	S8, S8C = "GSM_PCHAN_SDCCH8_SACCH8C", "GSM_PCHAN_SDCCH8_SACCH8C_CBCH"
	out.append(("MF_TASK_BCCH_NORM", "NB_DL", 0, [(C, ALL_TN), (C4, ALL_TN), (C4C, ALL_TN)],
		"L1SCHED_BCCH", "dl", "start", ("BCCH", "dl")))
	out.append(("MF_TASK_CCCH", "NB_DL", 0, [(C, ALL_TN)], "L1SCHED_CCCH", "dl", "start", ("CCCH/noncombined", "dl")))
	out.append(("MF_TASK_CCCH_COMB", "NB_DL", 0, [(C4, ALL_TN), (C4C, ALL_TN)], "L1SCHED_CCCH", "dl", "start",
		("CCCH/combined", "dl")))
	for n in range(4):
		cfg = [(C4, ALL_TN)] + ([(C4C, ALL_TN)] if n != 2 else [])
		for d, s in (("dl", "NB_DL"), ("ul", "NB_UL")):
			out.append(("MF_TASK_SDCCH4_%d" % n, s, 0, cfg, "L1SCHED_SDCCH4_%d" % n, d, "start", ("SDCCH4_%d" % n, d)))
			out.append(("MF_TASK_SDCCH4_%d" % n, s, 1, cfg, "L1SCHED_SACCH4_%d" % n, d, "start", ("SACCH4_%d" % n, d)))
	for n in range(8):
		cfg = [(S8, ALL_TN)] + ([(S8C, ALL_TN)] if n != 2 else [])
		for d, s in (("dl", "NB_DL"), ("ul", "NB_UL")):
			out.append(("MF_TASK_SDCCH8_%d" % n, s, 0, cfg, "L1SCHED_SDCCH8_%d" % n, d, "start", ("SDCCH8_%d" % n, d)))
			out.append(("MF_TASK_SDCCH8_%d" % n, s, 1, cfg, "L1SCHED_SACCH8_%d" % n, d, "start", ("SACCH8_%d" % n, d)))
	out.append(("MF_TASK_SDCCH4_CBCH", "NB_DL", 0, [(C4C, ALL_TN)], "L1SCHED_SDCCH4_CBCH", "dl", "start", ("SDCCH4_CBCH", "dl")))
	out.append(("MF_TASK_SDCCH8_CBCH", "NB_DL", 0, [(S8C, ALL_TN)], "L1SCHED_SDCCH8_CBCH", "dl", "start", ("SDCCH8_CBCH", "dl")))
	TF, TH, PD = "GSM_PCHAN_TCH_F", "GSM_PCHAN_TCH_H", "GSM_PCHAN_PDCH"
	for d in ("dl", "ul"):
		out.append(("MF_TASK_TCH_F_EVEN", "TCH", 0, [(TF, [0, 2, 4, 6])], "L1SCHED_TCHF", d, "all", ("TCHF", d)))
		out.append(("MF_TASK_TCH_F_ODD", "TCH", 0, [(TF, [1, 3, 5, 7])], "L1SCHED_TCHF", d, "all", ("TCHF", d)))
		out.append(("MF_TASK_TCH_F_EVEN", "TCH_A", 1, [(TF, [0, 2, 4, 6])], "L1SCHED_SACCHTF", d, "all", ("SACCHTF/even", d)))
		out.append(("MF_TASK_TCH_F_ODD", "TCH_A", 1, [(TF, [1, 3, 5, 7])], "L1SCHED_SACCHTF", d, "all", ("SACCHTF/odd", d)))
		for n in (0, 1):
			out.append(("MF_TASK_TCH_H_%d" % n, "TCH", 0, [(TH, ALL_TN)], "L1SCHED_TCHH_%d" % n, d, "all", ("TCHH_%d" % n, d)))
			out.append(("MF_TASK_TCH_H_%d" % n, "TCH_A", 1, [(TH, ALL_TN)], "L1SCHED_SACCHTH_%d" % n, d, "all", ("SACCHTH_%d" % n, d)))
	out.append(("MF_TASK_GPRS_PDTCH", "NB_DL", 0, [(PD, ALL_TN)], "L1SCHED_PDTCH", "dl", "start", ("PDTCH", "dl")))
	return out

# Reference interpreter for protocol definitions composed from the declarative
# codec's building blocks.  A definition is a harness AST (plain tuples/dicts)
# from which both the real codec classes (vf/props/c16.py) and this
# interpreter are built.  Imports nothing from the repository.
#
# AST node kinds (dicts):
#   {"k": "int", "name", "len", "bo": "big"|"little", "signed", "offset", "mult",
#    "derive": None | ("len_of", other_name)}
#   {"k": "buf", "name", "len": n>0 | 0 (rest of the data) , "len_from": None | name of an earlier int}
#   {"k": "spare", "name", "len", "filler": one octet}
#   {"k": "bits", "order": "big"|"little", "len": octets, "fields": [{"name"|None, "bl", "val": None|int}]}
#   {"k": "env", "name", "len": n>0 | 0, "fields": [...]}
#   {"k": "seq", "name", "len": n>0 | 0, "item": [...]}
#   every node may carry "pres": None | name of an earlier int field (present iff its value != 0)


class Reject(Exception):
	""" The definition declares this input / value unacceptable. """


def enc_fields(fields, vals):
	out = bytearray()
	for f in fields:
		out += enc_node(f, vals)
	return bytes(out)


def present(f, vals):
	p = f.get("pres")
	return True if p is None else bool(vals[p])


def enc_node(f, vals):
	if not present(f, vals):
		return b""
	k = f["k"]
	if k == "int":
		if f.get("derive"):
			v = len(vals[f["derive"][1]])
		else:
			v = vals[f["name"]]
		raw, rem = divmod(v - f["offset"], f["mult"])
		lo, hi = (-(1 << (8 * f["len"] - 1)), (1 << (8 * f["len"] - 1)) - 1) if f["signed"] else (0, (1 << (8 * f["len"])) - 1)
		if not lo <= raw <= hi:
			raise Reject("integer does not fit")
		return raw.to_bytes(f["len"], f["bo"], signed = f["signed"])
	if k == "buf":
		v = bytes(vals[f["name"]])
		if f["len"] > 0 and len(v) != f["len"]:
			raise Reject("buffer length")
		return v
	if k == "spare":
		return f["filler"] * f["len"]
	if k == "bits":
		blob = 0
		pos = 8 * f["len"]
		fl = f["fields"] if f["order"] == "big" else f["fields"][::-1]
		for b in fl:
			pos -= b["bl"]
			if b["name"] is None:
				continue
			v = b["val"] if b["val"] is not None else vals[b["name"]]
			blob |= (v & ((1 << b["bl"]) - 1)) << pos
		return blob.to_bytes(f["len"], "big")
	if k == "env":
		d = enc_fields(f["fields"], vals[f["name"]])
		if f["len"] > 0 and len(d) != f["len"]:
			raise Reject("nested length")
		return d
	if k == "seq":
		d = b"".join(enc_fields(f["item"], it) for it in vals[f["name"]])
		if f["len"] > 0 and len(d) != f["len"]:
			raise Reject("sequence length")
		return d
	raise ValueError(k)


def dec_fields(fields, data, vals, exact):
	off = 0
	for f in fields:
		off += dec_node(f, data[off:], vals)
	if exact and off != len(data):
		raise Reject("trailing octets")
	return off


def dec_node(f, data, vals):
	if not present(f, vals):
		return 0
	k = f["k"]
	if k == "buf" and f.get("len_from"):
		n = vals[f["len_from"]]
	elif f["len"] > 0:
		n = f["len"]
	else:
		n = len(data)
	if n < 0 or len(data) < n:
		raise Reject("short read")
	d = data[:n]
	if k == "int":
		vals[f["name"]] = int.from_bytes(d, f["bo"], signed = f["signed"]) * f["mult"] + f["offset"]
	elif k == "buf":
		vals[f["name"]] = bytes(d)
	elif k == "spare":
		pass
	elif k == "bits":
		blob = int.from_bytes(d, "big")
		pos = 8 * f["len"]
		fl = f["fields"] if f["order"] == "big" else f["fields"][::-1]
		for b in fl:
			pos -= b["bl"]
			if b["name"] is None:
				continue
			v = (blob >> pos) & ((1 << b["bl"]) - 1)
			vals[b["name"]] = v
			if b["val"] is not None and v != b["val"]:
				raise Reject("fixed value mismatch")
	elif k == "env":
		vals[f["name"]] = {}
		dec_fields(f["fields"], d, vals[f["name"]], True)
	elif k == "seq":
		items = []
		off = 0
		while off < len(d):
			it = {}
			items.append(it)
			off += dec_fields(f["item"], d[off:], it, False)
		vals[f["name"]] = items
	return n


def encode(ast, vals):
	return enc_fields(ast["fields"], vals)


def decode(ast, data):
	""" -> (values, consumed); raises Reject """
	vals = {}
	used = dec_fields(ast["fields"], data, vals, ast["check_len"])
	return vals, used


def fixed_size(fields):
	""" Size in octets when every field is unconditionally present and fixed, else None. """
	n = 0
	for f in fields:
		if f.get("pres") is not None:
			return None
		if f["k"] == "buf" and f.get("len_from"):
			return None
		if f["len"] == 0:
			return None
		n += f["len"]
	return n

# cbuild - sanitizer builds of the repository's real C translation units,
# rebuilt from /repo's current working tree on every check, into
# /verif/build/<tag>.<pid>/ (removed by the check when done).

import os
import shutil
import subprocess

from vf import common

FW = os.path.join(common.REPO, "src/target/firmware")
LIBOSMO = os.path.join(common.REPO, "src/shared/libosmocore")
TRXCON = os.path.join(common.REPO, "src/host/trxcon")
CDIR = os.path.join(common.VERIF, "c")

SAN = ["-fsanitize=address,undefined", "-fno-sanitize-recover=all",
       "-fno-omit-frame-pointer", "-g", "-O1"]
WARN = ["-w"]

# headers of firmware/include that are safe to expose on a host (never the
# directory itself: it carries its own stdio.h/string.h/stdint.h)
FW_EXPOSE = ["layer1", "calypso", "comm", "abb", "rf", "defines.h", "debug.h", "rffe.h",
	"board.h", "keypad.h", "delay.h", "uart.h", "console.h", "memory.h", "byteorder.h", "swab.h",
	"battery", "fb", "flash", "spi.h", "i2c.h", "uwire.h", "arm.h", "manifest.h", "tiffs.h"]


class BuildDir:
	def __init__(self, tag):
		self.path = os.path.join(common.VERIF, "build", "%s.%d" % (tag, os.getpid()))
		shutil.rmtree(self.path, ignore_errors = True)
		os.makedirs(self.path)

	def sub(self, name):
		p = os.path.join(self.path, name)
		os.makedirs(p, exist_ok = True)
		return p

	def remove(self):
		shutil.rmtree(self.path, ignore_errors = True)


def firmware_staging(bd):
	""" Include dir of symlinks into firmware/include + stub asm/system.h. """
	st = bd.sub("fwinc")
	for name in FW_EXPOSE:
		src = os.path.join(FW, "include", name)
		dst = os.path.join(st, name)
		if os.path.exists(src) and not os.path.lexists(dst):
			os.symlink(src, dst)
	asm = os.path.join(st, "asm")
	os.makedirs(asm, exist_ok = True)
	with open(os.path.join(asm, "system.h"), "w") as f:
		f.write("#pragma once\n"
			"/* host stub: no interrupts on a host */\n"
			"#define local_firq_save(x) do { (x) = 0; } while (0)\n"
			"#define local_irq_restore(x) do { (void)(x); } while (0)\n"
			"#define local_irq_save(x) do { (x) = 0; } while (0)\n"
			"#define local_irq_enable() do { } while (0)\n"
			"#define local_irq_disable() do { } while (0)\n"
			"#define local_fiq_enable() do { } while (0)\n"
			"#define local_fiq_disable() do { } while (0)\n")
	for h in ("atomic.h", "bitops.h", "linkage.h"):
		src = os.path.join(FW, "include", "asm", h)
		if os.path.exists(src):
			dst = os.path.join(asm, h)
			if not os.path.lexists(dst):
				os.symlink(src, dst)
	return st


def libosmocore_config(bd):
	""" gsm_utils.c includes "../../config.h": give it an empty one via -I build/cfg/a/b. """
	cfg = bd.sub("cfg")
	with open(os.path.join(cfg, "config.h"), "w") as f:
		f.write("/* empty host config for the in-repo libosmocore */\n")
	ab = os.path.join(cfg, "a", "b")
	os.makedirs(ab, exist_ok = True)
	return ab


def compile_link(bd, out, sources, includes = (), defines = (), cflags = (), ldflags = (),
                 sanitize = True, timeout = 300):
	cmd = ["clang"] + WARN + (SAN if sanitize else ["-g", "-O1"])
	cmd += ["-I" + i for i in includes]
	cmd += ["-D" + d for d in defines]
	cmd += list(cflags)
	cmd += list(sources)
	cmd += ["-o", os.path.join(bd.path, out)] + list(ldflags)
	try:
		p = subprocess.run(cmd, stdout = subprocess.PIPE, stderr = subprocess.STDOUT,
			timeout = timeout, cwd = bd.path)
	except subprocess.TimeoutExpired:
		raise common.HarnessError("clang timed out building %s" % out)
	if p.returncode != 0:
		raise BuildFailed(out, p.stdout.decode(errors = "replace")[-3000:])
	return os.path.join(bd.path, out)


class BuildFailed(common.HarnessError):
	def __init__(self, what, log):
		common.HarnessError.__init__(self, "build of %s failed:\n%s" % (what, log))
		self.log = log


def san_env():
	env = dict(os.environ)
	env["ASAN_OPTIONS"] = "halt_on_error=1:exitcode=97:detect_leaks=0:abort_on_error=0:" \
		"detect_stack_use_after_return=1:strict_string_checks=1:allocator_may_return_null=1"
	env["UBSAN_OPTIONS"] = "halt_on_error=1:exitcode=97:print_stacktrace=1"
	sym = shutil.which("llvm-symbolizer") or shutil.which("llvm-symbolizer-14")
	if sym:
		env["ASAN_SYMBOLIZER_PATH"] = sym
	return env


def run(binary, stdin_data = b"", args = (), timeout = 300):
	""" -> (returncode, stdout bytes, stderr bytes); returncode None on timeout. """
	try:
		p = subprocess.run([binary] + list(args), input = stdin_data, stdout = subprocess.PIPE,
			stderr = subprocess.PIPE, timeout = timeout, env = san_env())
	except subprocess.TimeoutExpired as e:
		return None, e.stdout or b"", e.stderr or b""
	return p.returncode, p.stdout, p.stderr


def sanitizer_summary(stderr):
	""" First sanitizer report line (if any) out of a driver's stderr. """
	txt = stderr.decode(errors = "replace")
	for line in txt.splitlines():
		if "runtime error:" in line or "ERROR: AddressSanitizer" in line or "SUMMARY:" in line:
			import re
			return re.sub(r"/\S*/build/[^/ ]+/", "", line.strip())[:400]
	return None


def firmware_includes(bd):
	return [firmware_staging(bd), os.path.join(LIBOSMO, "include"), libosmocore_config(bd),
		os.path.join(common.REPO, "include")]


GC = (["-ffunction-sections", "-fdata-sections"],
      ["-Wl,--gc-sections", "-Wl,--unresolved-symbols=ignore-all"])


def attach(tag):
	""" Build dir shared between a sharded check's parent and its shards. """
	pid = int(os.environ.get("VERIF_PARENT_PID", os.getpid()))
	bd = BuildDir.__new__(BuildDir)
	bd.path = os.path.join(common.VERIF, "build", "%s.%d" % (tag, pid))
	os.makedirs(bd.path, exist_ok = True)
	return bd


def run_cases(binary, cases, timeout = 600, args = ()):
	""" Feed a list of case scripts (bytes, each starting with a line
	    b"N <index>\n" that makes the driver print "CASE <index>") to a driver.
	    Returns (outputs, crashes): outputs[i] = list of stdout lines of case i
	    (None if it never ran), crashes = list of (index, returncode, stderr tail,
	    sanitizer summary).  After a crash the remaining cases are re-submitted
	    to a fresh process, so one defect does not mask the rest. """
	outputs = [None] * len(cases)
	crashes = []
	start = 0
	guard = 0
	while start < len(cases):
		guard += 1
		if guard > 25:
			break
		blob = b"".join(cases[start:])
		rc, out, err = run(binary, blob, args = args, timeout = timeout)
		cur = None
		for line in out.decode(errors = "replace").split("\n"):
			if line.startswith("CASE "):
				cur = int(line[5:])
				outputs[cur] = []
			elif cur is not None and line != "":
				outputs[cur].append(line)
		if rc == 0:
			break
		# the driver died: the last case that printed its marker is the culprit
		bad = cur if cur is not None else start
		crashes.append((bad, rc, err.decode(errors = "replace")[-3000:], sanitizer_summary(err)))
		start = bad + 1
	return outputs, crashes


SHIM_FORWARD = ["osmocom/core/linuxlist.h", "osmocom/core/msgb.h", "osmocom/core/prim.h",
	"osmocom/gsm/protocol/gsm_04_08.h"]


def trxcon_includes(bd):
	""" Include path for trxcon sources: harness shim of modern libosmocore,
	    forwarders to the few in-repo libosmocore headers that are compatible,
	    trxcon's own headers. """
	fwd = bd.sub("shimfwd")
	for rel in SHIM_FORWARD:
		dst = os.path.join(fwd, rel)
		os.makedirs(os.path.dirname(dst), exist_ok = True)
		with open(dst, "w") as f:
			f.write('#pragma once\n#include "%s"\n' % os.path.join(LIBOSMO, "include", rel))
	return [os.path.join(CDIR, "shim"), fwd, os.path.join(TRXCON, "include")]


def compile_obj(bd, src, includes = (), defines = (), cflags = (), sanitize = True, timeout = 300):
	""" One source -> one object (for TUs that need their own include path). """
	obj = os.path.join(bd.path, os.path.basename(src) + ".%x.o" % (hash(src) & 0xffff))
	cmd = ["clang"] + WARN + (SAN if sanitize else ["-g", "-O1"]) + ["-c", src, "-o", obj]
	cmd += ["-I" + i for i in includes] + ["-D" + d for d in defines] + list(cflags)
	try:
		p = subprocess.run(cmd, stdout = subprocess.PIPE, stderr = subprocess.STDOUT, timeout = timeout, cwd = bd.path)
	except subprocess.TimeoutExpired:
		raise common.HarnessError("clang timed out building %s" % src)
	if p.returncode != 0:
		raise BuildFailed(src, p.stdout.decode(errors = "replace")[-3000:])
	return obj


def build_trxif(bd):
	""" The real trx_if.c + harness shim + driver; gsm_utils.c (for
	    gsm_arfcn2freq10) is compiled against the in-repo headers it belongs to. """
	inc = trxcon_includes(bd)
	gsm_utils = compile_obj(bd, os.path.join(LIBOSMO, "src/gsm/gsm_utils.c"),
		includes = [os.path.join(LIBOSMO, "include"), libosmocore_config(bd)], cflags = GC[0])
	return compile_link(bd, "trxif_drv",
		[os.path.join(CDIR, "drivers/trxif_drv.c"), os.path.join(TRXCON, "src/trx_if.c"),
		 os.path.join(CDIR, "shim/shim.c"), gsm_utils],
		includes = inc, cflags = GC[0], ldflags = GC[1])


class Session:
	""" Interactive line-oriented session with a driver process. """

	def __init__(self, binary, args = ()):
		self.p = subprocess.Popen([binary] + list(args), stdin = subprocess.PIPE, stdout = subprocess.PIPE,
			stderr = subprocess.PIPE, env = san_env())
		self.dead = False

	def op(self, line, end_prefixes):
		""" Send one op; return the output lines up to and including the first
		    line starting with one of end_prefixes.  None if the process died. """
		if self.dead:
			return None
		try:
			self.p.stdin.write(line.encode() + b"\n")
			self.p.stdin.flush()
		except (BrokenPipeError, OSError):
			self.dead = True
			return None
		out = []
		while True:
			l = self.p.stdout.readline()
			if not l:
				self.dead = True
				return None
			l = l.decode(errors = "replace").rstrip("\n")
			out.append(l)
			if l.startswith(tuple(end_prefixes)):
				return out

	def close(self):
		""" -> (returncode, stderr text) """
		try:
			self.p.stdin.close()
		except Exception:
			pass
		try:
			rc = self.p.wait(timeout = 20)
		except subprocess.TimeoutExpired:
			self.p.kill()
			rc = self.p.wait()
		err = self.p.stderr.read().decode(errors = "replace")
		self.p.stdout.close()
		self.p.stderr.close()
		return rc, err

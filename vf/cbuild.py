# cbuild - sanitizer builds of the repository's real C translation units,
# rebuilt from /repo's current working tree on every check, into
# /verif/build/<tag>.<pid>/ (removed by the check when done).

import os
import shutil
import subprocess

from vf import common

FW = os.path.join(common.REPO, "src/target/firmware")
LIBOSMO = os.path.join(common.REPO, "src/shared/libosmocore")
TRXCON = os.path.join(common.REPO, "src/host/trxcon")
CDIR = os.path.join(common.VERIF, "c")

SAN = ["-fsanitize=address,undefined", "-fno-sanitize-recover=all",
       "-fno-omit-frame-pointer", "-g", "-O1"]
# second build family (one sanitizer family per build, the workload repeated per build): every
# driver is also built with MemorySanitizer - everything in these harnesses is compiled here (the
# repository's TUs, the shim, the driver), libc is intercepted - and fed the same input; a report,
# or output that differs from the ASan build's, is returned to the caller as a failed run.
MSAN = ["-fsanitize=memory", "-fsanitize-memory-track-origins=2", "-fno-omit-frame-pointer", "-g", "-O1"]
MSAN_ON = os.environ.get("VERIF_NO_MSAN") is None
STATS = {"msan_runs": 0, "msan_output_lines_compared": 0, "msan_session_ops": 0}
WARN = ["-w"]
# diagnostic only (never set by a registered command): VERIF_CCOV=<dir> adds clang source coverage to the ASan builds,
# keeps the build directories and writes one raw profile per process into <dir>; mut/ccov.sh turns them into a
# per-line report of the repository's C files, which shows what the workloads never execute
CCOV = os.environ.get("VERIF_CCOV")
if CCOV:
	SAN = SAN + ["-fprofile-instr-generate", "-fcoverage-mapping"]
	os.environ["LLVM_PROFILE_FILE"] = os.path.join(CCOV, "%p-%m.profraw")

# headers of firmware/include that are safe to expose on a host (never the
# directory itself: it carries its own stdio.h/string.h/stdint.h)
FW_EXPOSE = ["layer1", "calypso", "comm", "abb", "rf", "defines.h", "debug.h", "rffe.h",
	"board.h", "keypad.h", "delay.h", "uart.h", "console.h", "memory.h", "byteorder.h", "swab.h",
	"battery", "fb", "flash", "spi.h", "i2c.h", "uwire.h", "arm.h", "manifest.h", "tiffs.h"]


class BuildDir:
	def __init__(self, tag):
		self.path = os.path.join(common.VERIF, "build", "%s.%d" % (tag, os.getpid()))
		shutil.rmtree(self.path, ignore_errors = True)
		os.makedirs(self.path)
		if CCOV:
			open(os.path.join(self.path, ".ccov"), "w").close()

	def sub(self, name):
		p = os.path.join(self.path, name)
		os.makedirs(p, exist_ok = True)
		return p

	def remove(self):
		if CCOV:
			return
		shutil.rmtree(self.path, ignore_errors = True)


def firmware_staging(bd):
	""" Include dir of symlinks into firmware/include + stub asm/system.h. """
	st = bd.sub("fwinc")
	for name in FW_EXPOSE:
		src = os.path.join(FW, "include", name)
		dst = os.path.join(st, name)
		if os.path.exists(src) and not os.path.lexists(dst):
			os.symlink(src, dst)
	asm = os.path.join(st, "asm")
	os.makedirs(asm, exist_ok = True)
	with open(os.path.join(asm, "system.h"), "w") as f:
		f.write("#pragma once\n"
			"#ifdef VERIF_IRQ_SIM\n"
			"/* interrupt-injection builds: the driver serves simulated IRQs only while verif_irq_masked is 0 and\n"
			" * simulated FIQs (which may preempt an IRQ handler) only while verif_fiq_masked is 0 */\n"
			"extern volatile int verif_irq_masked, verif_fiq_masked;\n"
			"extern unsigned long verif_lock_sections;\n"
			"#define local_firq_save(x) do { (x) = (verif_irq_masked ? 1 : 0) | (verif_fiq_masked ? 2 : 0); "
			"verif_irq_masked = 1; verif_fiq_masked = 1; verif_lock_sections++; } while (0)\n"
			"#define local_irq_restore(x) do { verif_irq_masked = ((x) & 1) != 0; verif_fiq_masked = ((x) & 2) != 0; } while (0)\n"
			"#else\n"
			"/* host stub: no interrupts on a host */\n"
			"#define local_firq_save(x) do { (x) = 0; } while (0)\n"
			"#define local_irq_restore(x) do { (void)(x); } while (0)\n"
			"#endif\n"
			"#define local_irq_save(x) do { (x) = 0; } while (0)\n"
			"#define local_irq_enable() do { } while (0)\n"
			"#define local_irq_disable() do { } while (0)\n"
			"#define local_fiq_enable() do { } while (0)\n"
			"#define local_fiq_disable() do { } while (0)\n")
	for h in ("atomic.h", "bitops.h", "linkage.h"):
		src = os.path.join(FW, "include", "asm", h)
		if os.path.exists(src):
			dst = os.path.join(asm, h)
			if not os.path.lexists(dst):
				os.symlink(src, dst)
	return st


def libosmocore_config(bd):
	""" gsm_utils.c includes "../../config.h": give it an empty one via -I build/cfg/a/b. """
	cfg = bd.sub("cfg")
	with open(os.path.join(cfg, "config.h"), "w") as f:
		f.write("/* empty host config for the in-repo libosmocore */\n")
	ab = os.path.join(cfg, "a", "b")
	os.makedirs(ab, exist_ok = True)
	return ab


def compile_link(bd, out, sources, includes = (), defines = (), cflags = (), ldflags = (),
                 sanitize = True, timeout = 300, twin = True):
	cmd = ["clang"] + WARN + (SAN if sanitize else ["-g", "-O1"])
	cmd += ["-I" + i for i in includes]
	cmd += ["-D" + d for d in defines]
	cmd += list(cflags)
	cmd += list(sources)
	cmd += ["-o", os.path.join(bd.path, out)] + list(ldflags)
	try:
		p = subprocess.run(cmd, stdout = subprocess.PIPE, stderr = subprocess.STDOUT,
			timeout = timeout, cwd = bd.path)
	except subprocess.TimeoutExpired:
		raise common.HarnessError("clang timed out building %s" % out)
	if p.returncode != 0:
		raise BuildFailed(out, p.stdout.decode(errors = "replace")[-3000:])
	if sanitize and MSAN_ON and twin:
		srcs = [(x[:-2] + ".msan.o") if (x.endswith(".o") and os.path.exists(x[:-2] + ".msan.o")) else x for x in sources]
		cmd = ["clang"] + WARN + MSAN + ["-I" + i for i in includes] + ["-D" + d for d in defines]
		cmd += [f for f in cflags if "sanitize" not in f] + srcs + ["-o", os.path.join(bd.path, out + ".msan")] + list(ldflags)
		try:
			p = subprocess.run(cmd, stdout = subprocess.PIPE, stderr = subprocess.STDOUT, timeout = timeout, cwd = bd.path)
		except subprocess.TimeoutExpired:
			raise common.HarnessError("clang timed out building %s (MemorySanitizer)" % out)
		if p.returncode != 0:
			raise BuildFailed(out + ".msan", p.stdout.decode(errors = "replace")[-3000:])
	return os.path.join(bd.path, out)


class BuildFailed(common.HarnessError):
	def __init__(self, what, log):
		common.HarnessError.__init__(self, "build of %s failed:\n%s" % (what, log))
		self.log = log


def san_env():
	env = dict(os.environ)
	env["ASAN_OPTIONS"] = "halt_on_error=1:exitcode=97:detect_leaks=0:abort_on_error=0:" \
		"detect_stack_use_after_return=1:strict_string_checks=1:allocator_may_return_null=1"
	env["UBSAN_OPTIONS"] = "halt_on_error=1:exitcode=97:print_stacktrace=1"
	env["MSAN_OPTIONS"] = "halt_on_error=1:exit_code=96:print_stats=0"
	sym = shutil.which("llvm-symbolizer") or shutil.which("llvm-symbolizer-14")
	if sym:
		env["ASAN_SYMBOLIZER_PATH"] = sym
		env["MSAN_SYMBOLIZER_PATH"] = sym
	return env


def run(binary, stdin_data = b"", args = (), timeout = 300, twin = True):
	""" -> (returncode, stdout bytes, stderr bytes); returncode None on timeout. """
	try:
		p = subprocess.run([binary] + list(args), input = stdin_data, stdout = subprocess.PIPE,
			stderr = subprocess.PIPE, timeout = timeout, env = san_env())
	except subprocess.TimeoutExpired as e:
		return None, e.stdout or b"", e.stderr or b""
	if p.returncode == 0 and twin and MSAN_ON and os.path.exists(binary + ".msan"):
		try:
			q = subprocess.run([binary + ".msan"] + list(args), input = stdin_data, stdout = subprocess.PIPE,
				stderr = subprocess.PIPE, timeout = 4 * timeout, env = san_env())
		except subprocess.TimeoutExpired as e:
			raise common.HarnessError("the MemorySanitizer build of %s timed out" % os.path.basename(binary))
		STATS["msan_runs"] += 1
		if q.returncode != 0:
			return (96 if b"MemorySanitizer" in q.stderr else q.returncode), q.stdout, q.stderr
		if q.stdout != p.stdout:
			a, b = p.stdout.split(b"\n"), q.stdout.split(b"\n")
			k = 0
			while k < min(len(a), len(b)) and a[k] == b[k]:
				k += 1
			msg = "BUILDS DISAGREE: output line %d is %r in the AddressSanitizer build and %r in the MemorySanitizer build" % (
				k + 1, a[k][:120] if k < len(a) else None, b[k][:120] if k < len(b) else None)
			return 95, b"\n".join(a[:k + 1]), msg.encode()
		STATS["msan_output_lines_compared"] += p.stdout.count(b"\n")
	return p.returncode, p.stdout, p.stderr


def run_patient(binary, stdin_data = b"", args = (), timeout = 300):
	""" Like run(), for drivers whose whole job takes seconds: if it does not finish within `timeout`
	    (hundreds of times its normal duration) it is run once more; a second timeout is returned as
	    returncode "hang" - the code under test does not terminate - instead of None (slow machine). """
	rc, out, err = run(binary, stdin_data, args = args, timeout = timeout)
	if rc is None:
		rc, out, err = run(binary, stdin_data, args = args, timeout = timeout, twin = False)
		if rc is None:
			return "hang", out, err
	return rc, out, err


def sanitizer_summary(stderr):
	""" First sanitizer report line (if any) out of a driver's stderr. """
	txt = stderr.decode(errors = "replace")
	for line in txt.splitlines():
		if "runtime error:" in line or "ERROR: AddressSanitizer" in line or "SUMMARY:" in line or "MemorySanitizer" in line or "BUILDS DISAGREE" in line:
			import re
			return re.sub(r"/\S*/build/[^/ ]+/", "", line.strip())[:400]
	return None


def firmware_includes(bd):
	return [firmware_staging(bd), os.path.join(LIBOSMO, "include"), libosmocore_config(bd),
		os.path.join(common.REPO, "include")]


GC = (["-ffunction-sections", "-fdata-sections"],
      ["-Wl,--gc-sections", "-Wl,--unresolved-symbols=ignore-all"])


def attach(tag):
	""" Build dir shared between a sharded check's parent and its shards. """
	pid = int(os.environ.get("VERIF_PARENT_PID", os.getpid()))
	bd = BuildDir.__new__(BuildDir)
	bd.path = os.path.join(common.VERIF, "build", "%s.%d" % (tag, pid))
	os.makedirs(bd.path, exist_ok = True)
	return bd


def run_cases(binary, cases, timeout = 120, args = (), twin = True):
	""" Feed a list of case scripts (bytes, each starting with a line
	    b"N <index>\n" that makes the driver print "CASE <index>") to a driver.
	    Returns (outputs, crashes): outputs[i] = list of stdout lines of case i
	    (None if it never ran), crashes = list of (index, returncode, stderr tail,
	    sanitizer summary).  After a crash the remaining cases are re-submitted
	    to a fresh process, so one defect does not mask the rest.  A batch that
	    does not finish is not a verdict by itself: the case it stopped in is run
	    again alone; only if that single case (milliseconds of work) still does not
	    finish within a minute it is recorded as a hang (returncode "hang"). """
	outputs = [None] * len(cases)
	crashes = []
	start = 0
	guard = 0
	hangs = 0
	while start < len(cases):
		guard += 1
		if guard > 25:
			break
		blob = b"".join(cases[start:])
		rc, out, err = run(binary, blob, args = args, timeout = timeout, twin = twin)
		cur = None
		for line in out.decode(errors = "replace").split("\n"):
			if line.startswith("CASE "):
				try:
					cur = int(line[5:])
				except ValueError:
					continue
				if not 0 <= cur < len(cases):
					cur = None
					continue
				outputs[cur] = []
			elif cur is not None and line != "":
				outputs[cur].append(line)
		if rc == 0:
			break
		bad = cur if cur is not None else start
		if rc is None:
			# the batch did not finish: is it this case, or just a slow machine?
			rc1, out1, err1 = run(binary, cases[bad], args = args, timeout = 60, twin = False)
			if rc1 is None:
				hangs += 1
				outputs[bad] = [l for l in (out1 or b"").decode(errors = "replace").split("\n")[1:] if l]
				crashes.append((bad, "hang", (err1 or b"").decode(errors = "replace")[-1500:],
					"no progress: run alone, this one case did not finish within 60 s"))
				if hangs >= 2:
					break
				# one confirmed hang: do not wait long for the next one
				timeout = min(timeout, 20)
				start = bad + 1
				continue
			# it finishes alone: resume from it with a longer batch timeout
			timeout = timeout * 3
			start = bad
			continue
		# the driver died: the last case that printed its marker is the culprit
		crashes.append((bad, rc, err.decode(errors = "replace")[-3000:], sanitizer_summary(err)))
		start = bad + 1
	return outputs, crashes


SHIM_FORWARD = ["osmocom/core/linuxlist.h", "osmocom/core/msgb.h", "osmocom/core/prim.h",
	"osmocom/gsm/protocol/gsm_04_08.h"]


def trxcon_includes(bd):
	""" Include path for trxcon sources: harness shim of modern libosmocore,
	    forwarders to the few in-repo libosmocore headers that are compatible,
	    trxcon's own headers. """
	fwd = bd.sub("shimfwd")
	for rel in SHIM_FORWARD:
		dst = os.path.join(fwd, rel)
		os.makedirs(os.path.dirname(dst), exist_ok = True)
		with open(dst, "w") as f:
			f.write('#pragma once\n#include "%s"\n' % os.path.join(LIBOSMO, "include", rel))
	return [os.path.join(CDIR, "shim"), fwd, os.path.join(TRXCON, "include")]


def compile_obj(bd, src, includes = (), defines = (), cflags = (), sanitize = True, timeout = 300, twin = True):
	""" One source -> one object (for TUs that need their own include path). """
	obj = os.path.join(bd.path, os.path.basename(src) + ".%x.o" % (hash(src) & 0xffff))
	cmd = ["clang"] + WARN + (SAN if sanitize else ["-g", "-O1"]) + ["-c", src, "-o", obj]
	cmd += ["-I" + i for i in includes] + ["-D" + d for d in defines] + list(cflags)
	try:
		p = subprocess.run(cmd, stdout = subprocess.PIPE, stderr = subprocess.STDOUT, timeout = timeout, cwd = bd.path)
	except subprocess.TimeoutExpired:
		raise common.HarnessError("clang timed out building %s" % src)
	if p.returncode != 0:
		raise BuildFailed(src, p.stdout.decode(errors = "replace")[-3000:])
	if sanitize and MSAN_ON and twin:
		cmd = ["clang"] + WARN + MSAN + ["-c", src, "-o", obj[:-2] + ".msan.o"]
		cmd += ["-I" + i for i in includes] + ["-D" + d for d in defines] + [f for f in cflags if "sanitize" not in f]
		p = subprocess.run(cmd, stdout = subprocess.PIPE, stderr = subprocess.STDOUT, timeout = timeout, cwd = bd.path)
		if p.returncode != 0:
			raise BuildFailed(src + " (MemorySanitizer)", p.stdout.decode(errors = "replace")[-3000:])
	return obj


def build_trxif(bd):
	""" The real trx_if.c + harness shim + driver; gsm_utils.c (for
	    gsm_arfcn2freq10) is compiled against the in-repo headers it belongs to. """
	inc = trxcon_includes(bd)
	gsm_utils = compile_obj(bd, os.path.join(LIBOSMO, "src/gsm/gsm_utils.c"),
		includes = [os.path.join(LIBOSMO, "include"), libosmocore_config(bd)], cflags = GC[0])
	return compile_link(bd, "trxif_drv",
		[os.path.join(CDIR, "drivers/trxif_drv.c"), os.path.join(TRXCON, "src/trx_if.c"),
		 os.path.join(CDIR, "shim/shim.c"), gsm_utils],
		includes = inc, cflags = GC[0], ldflags = GC[1])


class Session:
	""" Interactive line-oriented session with a driver process. """

	def __init__(self, binary, args = ()):
		self.p = subprocess.Popen([binary] + list(args), stdin = subprocess.PIPE, stdout = subprocess.PIPE,
			stderr = subprocess.PIPE, env = san_env())
		self.dead = False
		# the same session is mirrored into the MemorySanitizer build; it must answer the same
		self.twin = None
		self.twin_fail = None
		if MSAN_ON and os.path.exists(binary + ".msan"):
			self.twin = subprocess.Popen([binary + ".msan"] + list(args), stdin = subprocess.PIPE, stdout = subprocess.PIPE,
				stderr = subprocess.PIPE, env = san_env())

	def _twin_op(self, line, end_prefixes, expect):
		t = self.twin
		out = []
		try:
			t.stdin.write(line.encode() + b"\n")
			t.stdin.flush()
			while True:
				l = t.stdout.readline()
				if not l:
					out = None
					break
				l = l.decode(errors = "replace").rstrip("\n")
				out.append(l)
				if l.startswith(tuple(end_prefixes)):
					break
		except (BrokenPipeError, OSError):
			out = None
		STATS["msan_session_ops"] += 1
		if out is None:
			try:
				t.stdin.close()
			except Exception:
				pass
			try:
				t.wait(timeout = 20)
			except subprocess.TimeoutExpired:
				t.kill()
				t.wait()
			err = t.stderr.read().decode(errors = "replace")
			self.twin_fail = (96 if "MemorySanitizer" in err else t.returncode, err)
			self.twin = None
			return False
		if expect is not None and out != expect:
			self.twin_fail = (95, "BUILDS DISAGREE: op %r answered %r in the AddressSanitizer build and %r in the MemorySanitizer build"
				% (line[:80], expect[:6], out[:6]))
			t.kill()
			t.wait()
			self.twin = None
			return False
		return True

	def op(self, line, end_prefixes):
		""" Send one op; return the output lines up to and including the first
		    line starting with one of end_prefixes.  None if the process died. """
		if self.dead:
			return None
		try:
			self.p.stdin.write(line.encode() + b"\n")
			self.p.stdin.flush()
		except (BrokenPipeError, OSError):
			self.dead = True
			return None
		out = []
		while True:
			l = self.p.stdout.readline()
			if not l:
				self.dead = True
				return None
			l = l.decode(errors = "replace").rstrip("\n")
			out.append(l)
			if l.startswith(tuple(end_prefixes)):
				break
		if self.twin is not None and not self._twin_op(line, end_prefixes, out):
			# reported like a death of the session: close() hands out the report
			self.dead = True
			return None
		return out

	def close(self):
		""" -> (returncode, stderr text) """
		try:
			self.p.stdin.close()
		except Exception:
			pass
		try:
			rc = self.p.wait(timeout = 20)
		except subprocess.TimeoutExpired:
			self.p.kill()
			rc = self.p.wait()
		err = self.p.stderr.read().decode(errors = "replace")
		self.p.stdout.close()
		self.p.stderr.close()
		if self.twin is not None:
			try:
				self.twin.stdin.close()
			except Exception:
				pass
			try:
				trc = self.twin.wait(timeout = 20)
			except subprocess.TimeoutExpired:
				self.twin.kill()
				trc = self.twin.wait()
			terr = self.twin.stderr.read().decode(errors = "replace")
			self.twin.stdout.close()
			self.twin.stderr.close()
			self.twin = None
			if trc != 0 and rc == 0:
				return (96 if "MemorySanitizer" in terr else trc), terr
		if self.twin_fail is not None and rc == 0:
			return self.twin_fail
		return rc, err

# vclock - virtual monotonic time for the repository's clock generator.
#
# clck_gen uses time.monotonic_ns() and self._breaker.wait(dt).  The harness
# puts a VTime object in place of the name `time` inside the clck_gen module
# and a VEvent in place of an instance's `_breaker`.  The real _worker /
# send_clck_ind / start / stop code runs unchanged in its real thread.

import threading


class VTime:
	def __init__(self, start_ns = 1_000_000_000):
		self.now = start_ns
		self.call_cost_ns = 0
		self.calls = 0

	def monotonic_ns(self):
		self.calls += 1
		self.now += self.call_cost_ns
		return self.now

	def monotonic(self):
		return self.monotonic_ns() / 1e9

	def time(self):
		return self.monotonic()

	# other spellings of "a monotonic clock"
	def perf_counter_ns(self):
		return self.monotonic_ns()

	def perf_counter(self):
		return self.monotonic()

	def time_ns(self):
		return self.monotonic_ns()

	def sleep(self, s):
		self.now += int(s * 1e9)


class VEvent:
	""" Stand-in for threading.Event used as CLCKGen._breaker.

	    free-running mode (gated=False): wait(t) advances virtual time by t plus
	    the scripted wake-up latency and returns True (stop) once `stop_after`
	    waits have been served.

	    gated mode: wait(t) blocks until the harness grants a tick with
	    release(n) or somebody calls set() (the real stop() does). """

	def __init__(self, vt, gated = False, stop_after = None, latency = None):
		self.vt = vt
		self.gated = gated
		self.stop_after = stop_after
		self.latency = latency or (lambda k: 0)
		self.flag = False
		self.cond = threading.Condition()
		self.permits = 0
		self.waits = 0          # completed waits (ticks granted)
		self.entered = 0        # times the worker entered wait()
		self.wait_log = []      # (virtual time at entry, timeout_ns, latency_ns)
		self.keep_log = True
		self.park_at_end = False  # free-running mode: after stop_after waits, block until set() (the real stop() must end the run)
		self.parked = False
		self.polls = 0          # is_set() calls
		self.polls_at_last_wait = 0

	def wait(self, timeout = None):
		t_ns = int(round((timeout or 0) * 1e9))
		with self.cond:
			self.entered += 1
			self.polls_at_last_wait = self.polls
			self.cond.notify_all()
			if self.gated:
				while self.permits == 0 and not self.flag:
					self.cond.wait(0.2)
				if self.flag:
					return True
				self.permits -= 1
			else:
				if self.flag:
					return True
				if self.stop_after is not None and self.waits >= self.stop_after:
					if not self.park_at_end:
						return True
					# the run is over for the harness: wait here until the real stop() sets the event
					self.parked = True
					self.cond.notify_all()
					while not self.flag:
						self.cond.wait(0.2)
					self.parked = False
					return True
			lat = self.latency(self.waits)
			if self.keep_log:
				self.wait_log.append((self.vt.now, t_ns, lat))
			self.vt.now += max(0, t_ns) + lat
			self.waits += 1
			return False

	def set(self):
		with self.cond:
			self.flag = True
			self.cond.notify_all()

	def clear(self):
		with self.cond:
			self.flag = False

	def is_set(self):
		self.polls += 1
		return self.flag

	# --- harness side (gated mode) ---
	def release(self, n, timeout = 300.0, alive = None):
		""" Let the worker perform n ticks and wait until it is blocked again
		    (or has exited).  Returns False on timeout, or as soon as alive() says the worker thread is gone. """
		import time as _t
		with self.cond:
			target = self.entered + n
			self.permits += n
			self.cond.notify_all()
			end = _t.time() + timeout
			while self.entered < target and not self.flag:
				left = end - _t.time()
				if left <= 0:
					return False
				if alive is not None and not alive():
					return False
				self.cond.wait(min(left, 0.2))
		return True


def attach(clck_gen_module, gen, vt, ev):
	""" Put the virtual time source and the harness event in place of the generator's own,
	    whatever they are called: the module's `time` (or a directly imported monotonic_ns)
	    and the instance's threading.Event. """
	if hasattr(clck_gen_module, "time"):
		clck_gen_module.time = vt
	for name in ("monotonic_ns", "monotonic", "perf_counter_ns", "perf_counter"):
		if hasattr(clck_gen_module, name):
			setattr(clck_gen_module, name, getattr(vt, name))
	names = [k for k, v in vars(gen).items() if isinstance(v, (threading.Event, VEvent))]
	if len(names) != 1:
		return False
	setattr(gen, names[0], ev)
	return True

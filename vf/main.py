# Entry point behind ./check:  ./check C07 [--tier quick|thorough] [--seed N] [--replay file]

import argparse
import importlib
import json
import os
import sys
import time

sys.dont_write_bytecode = True
sys.path.insert(0, os.path.dirname(os.path.dirname(os.path.abspath(__file__))))

from vf import common

# kill -USR1 <pid> prints every thread's stack (for finding out where a slow run waits)
import faulthandler
import signal
faulthandler.register(signal.SIGUSR1, all_threads = True)


def setup():
	ok = True
	if sys.version_info < (3, 12):
		print("setup: need python >= 3.12 (sys.monitoring), have %s" % sys.version)
		ok = False
	import shutil
	for tool in ("clang", "llvm-symbolizer"):
		if shutil.which(tool) is None and shutil.which(tool + "-14") is None:
			print("setup: %s not found" % tool)
			ok = ok and tool != "clang"
	for d in ("build", "evidence", "replays"):
		os.makedirs(os.path.join(common.VERIF, d), exist_ok = True)
	print("setup: %s" % ("ok" if ok else "FAILED"))
	return 0 if ok else 1


def main():
	ap = argparse.ArgumentParser()
	ap.add_argument("prop", nargs = "?")
	ap.add_argument("--setup", action = "store_true")
	ap.add_argument("--tier", default = os.environ.get("VERIF_TIER", "quick"),
		choices = ["quick", "thorough"])
	ap.add_argument("--seed", type = int, default = int(os.environ.get("VERIF_SEED", "0")))
	ap.add_argument("--replay")
	ap.add_argument("--shard")
	ap.add_argument("--partial")
	args = ap.parse_args()

	if args.setup:
		return setup()
	if not args.prop:
		ap.error("property id required")

	prop = args.prop.upper()
	mod = importlib.import_module("vf.props.%s" % prop.lower())
	common.LEVEL = getattr(mod, "LEVEL", "exploration")

	shard = (0, 1)
	if args.shard:
		a, b = args.shard.split("/")
		shard = (int(a), int(b))

	replay = None
	if args.replay:
		path = args.replay if os.path.isabs(args.replay) else os.path.join(common.VERIF, args.replay)
		with open(path) as f:
			replay = json.load(f)

	ctx = common.Ctx(prop, args.tier, args.seed, shard, replay)
	wd = getattr(mod, "WATCHDOG", {"quick": 600, "thorough": 3000})[args.tier]
	ctx.deadline = time.time() + wd * 0.9

	if replay is not None:
		mod.replay(ctx, replay)
		return ctx.finish()

	nshards = getattr(mod, "SHARDS", {"quick": 1, "thorough": 16})[args.tier]
	if args.shard is None and nshards > 1:
		if hasattr(mod, "prepare"):
			common.guard(ctx, "prepare", mod.prepare)
		common.run_sharded(ctx, nshards, wd)
		if hasattr(mod, "finalize"):
			common.guard(ctx, "finalize", mod.finalize)
		if hasattr(mod, "cleanup"):
			mod.cleanup(ctx)
		return ctx.finish()

	if args.shard is None and hasattr(mod, "prepare"):
		common.guard(ctx, "prepare", mod.prepare)
	common.guard(ctx, "run", mod.run)
	if args.partial:
		with open(args.partial + ".tmp", "w") as f:
			json.dump(ctx.to_partial(), f)
		os.replace(args.partial + ".tmp", args.partial)
		return 0
	if hasattr(mod, "finalize"):
		common.guard(ctx, "finalize", mod.finalize)
	if hasattr(mod, "cleanup"):
		mod.cleanup(ctx)
	return ctx.finish()


if __name__ == "__main__":
	sys.exit(main())

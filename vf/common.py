# Shared run context for all property checks: seeds, tiers, counters, evidence,
# replay files, known-findings matching, sharding and the three-valued verdict.
#
# stdlib only; runs under /venv/bin/python (3.12).

import hashlib
import json
import os
import random
import subprocess
import sys
import time
import traceback
from array import array
from collections import Counter

VERIF = os.path.dirname(os.path.dirname(os.path.abspath(__file__)))
REPO = os.environ.get("VERIF_REPO", "/repo")
TOOLKIT = os.path.join(REPO, "src/target/trx_toolkit")
PY = sys.executable
# runs against a scratch copy (VERIF_REPO set) keep their evidence and replay
# files away from the committed ones
OUT = VERIF if REPO == "/repo" else os.path.join(VERIF, "build", "alt")

EXIT_HELD = 0
EXIT_VIOLATION = 1
EXIT_INCONCLUSIVE = 2

LEVEL = "exploration"


def use_toolkit():
	""" Make the repository's trx_toolkit importable (current working tree). """
	if TOOLKIT not in sys.path:
		sys.path.insert(0, TOOLKIT)
	sys.dont_write_bytecode = True


class HarnessError(Exception):
	""" Something in /verif (not in /repo) went wrong: inconclusive. """


def h64(obj):
	""" Stable 64-bit hash of a JSON-like object / bytes. """
	if isinstance(obj, (bytes, bytearray)):
		b = bytes(obj)
	else:
		b = repr(obj).encode()
	return int.from_bytes(hashlib.blake2b(b, digest_size = 8).digest(), "big")


def jsonable(o):
	if isinstance(o, (bytes, bytearray, memoryview)):
		return {"hex": bytes(o).hex()}
	if isinstance(o, array):
		return list(o)
	if isinstance(o, (set, frozenset)):
		return sorted(jsonable(x) for x in o)
	if isinstance(o, tuple):
		return [jsonable(x) for x in o]
	if isinstance(o, list):
		return [jsonable(x) for x in o]
	if isinstance(o, dict):
		return {str(k): jsonable(v) for k, v in o.items()}
	if isinstance(o, (int, float, str, bool)) or o is None:
		return o
	return repr(o)


def unjson(o):
	""" Inverse of jsonable for the {'hex': ..} convention. """
	if isinstance(o, dict):
		if set(o.keys()) == {"hex"}:
			return bytes.fromhex(o["hex"])
		return {k: unjson(v) for k, v in o.items()}
	if isinstance(o, list):
		return [unjson(x) for x in o]
	return o


class Known:
	""" Known findings: committed file, never written at run time. """

	def __init__(self):
		path = os.path.join(VERIF, "known_findings.json")
		self.open = {}  # (property, mechanism) -> entry
		self.fixed = {}
		try:
			with open(path) as f:
				data = json.load(f)
		except FileNotFoundError:
			data = {"findings": []}
		for e in data.get("findings", []):
			key = (e["property"], e["mechanism"])
			if e.get("status") == "open":
				self.open[key] = e
			else:
				self.fixed[key] = e

	def is_open(self, prop, mechanism):
		return (prop, mechanism) in self.open


class Ctx:
	def __init__(self, prop, tier, seed, shard = (0, 1), replay = None):
		self.prop = prop
		self.tier = tier
		self.seed = seed
		self.shard = shard
		self.replay = replay
		self.t0 = time.time()
		self.counters = Counter()
		self.evaluations = 0
		self.distinct = set()
		self.distinct_extra = 0  # cases distinct by construction (enumerations), counted not hashed
		self.samples = {}
		self.sample_cap = 3
		self.violations = []   # dicts: sub, mechanism, witness, known
		self.inconclusive = []
		self.requirements = {}  # counter key -> minimum
		self.assumptions = []
		self.rule = ""
		self.extra = {}         # extra coverage keys
		self.exhaustive = None
		self.known = Known()
		self.max_violations = int(os.environ.get("VERIF_MAX_VIOL", "200"))
		self.deadline = None

	# ---- workload sizing -------------------------------------------------
	def scale(self, quick, thorough):
		n = quick if self.tier == "quick" else thorough
		m = float(os.environ.get("VERIF_SCALE", "1"))
		n = int(n * m)
		# thorough totals are split over the shards
		if self.shard[1] > 1:
			n = max(1, n // self.shard[1])
		return max(1, n)

	def mine(self, i):
		""" True when element i of an enumeration belongs to this shard. """
		return i % self.shard[1] == self.shard[0]

	def rng(self, name):
		return random.Random("%s/%d/%s/%d" % (self.prop, self.seed, name, self.shard[0]))

	def case_rng(self, name, idx):
		""" An independent generator per generated case, so that one case can be replayed alone.
		    Witnesses recorded while it is current carry the coordinates needed for that. """
		self.current_case = {"workload": name, "index": idx, "shard": list(self.shard), "seed": self.seed, "tier": self.tier}
		return random.Random("%s/%d/%s/%d/%d" % (self.prop, self.seed, name, self.shard[0], idx))

	# ---- observation -----------------------------------------------------
	def count(self, key, n = 1):
		self.counters[key] += n

	def seen(self, key, nontrivial = True):
		""" One evaluated case; key identifies it for distinct counting. """
		self.evaluations += 1
		if nontrivial:
			self.distinct.add(key if isinstance(key, int) else h64(key))

	def sample(self, kind, obj):
		lst = self.samples.setdefault(kind, [])
		if len(lst) < self.sample_cap:
			lst.append(jsonable(obj))

	def require(self, key, minimum = 1):
		self.requirements[key] = max(minimum, self.requirements.get(key, 0))

	def assume(self, text):
		if text not in self.assumptions:
			self.assumptions.append(text)

	def violation(self, sub, witness, mechanism = None, what = None):
		""" Record a violation witness.  mechanism: the classifier's verdict
		    on *why* it fails (None = unclassified).  It is matched against
		    the committed known-findings file. """
		known = mechanism is not None and self.known.is_open(self.prop, mechanism)
		if getattr(self, "current_case", None) and isinstance(witness, dict) and "_case" not in witness:
			witness = dict(witness, _case = dict(self.current_case))
		self.count("violation_witnesses")
		self.count("witness:%s" % (mechanism or "unclassified"))
		if len(self.violations) < self.max_violations or \
		   (not known and sum(1 for v in self.violations if not v["known"]) < 50):
			self.violations.append({
				"sub": sub,
				"mechanism": mechanism,
				"what": what,
				"witness": jsonable(witness),
				"known": known,
			})
		return known

	def inconclusive_because(self, reason):
		self.inconclusive.append(reason)

	def too_many(self):
		# (two cases that do not terminate are enough: each of them costs minutes)
		return sum(1 for v in self.violations if not v["known"]) >= 50 or self.counters.get("cases_that_do_not_terminate", 0) >= 2

	def time_left(self):
		if self.deadline is None:
			return 1e9
		return self.deadline - time.time()

	# ---- partial results (shards) -----------------------------------------
	def to_partial(self):
		self.absorb_build_stats()
		return {
			"counters": dict(self.counters),
			"evaluations": self.evaluations,
			"distinct": sorted(self.distinct),
			"distinct_extra": self.distinct_extra,
			"samples": self.samples,
			"violations": self.violations,
			"inconclusive": self.inconclusive,
			"requirements": self.requirements,
			"assumptions": self.assumptions,
			"rule": self.rule,
			"extra": self.extra,
			"exhaustive": self.exhaustive,
		}

	def merge_partial(self, p):
		self.counters.update(p["counters"])
		self.evaluations += p["evaluations"]
		self.distinct.update(p["distinct"])
		self.distinct_extra += p.get("distinct_extra", 0)
		for k, lst in p["samples"].items():
			mine = self.samples.setdefault(k, [])
			for s in lst:
				if len(mine) < self.sample_cap:
					mine.append(s)
		self.violations.extend(p["violations"])
		self.inconclusive.extend(p["inconclusive"])
		for k, v in p["requirements"].items():
			self.require(k, v)
		for a in p["assumptions"]:
			self.assume(a)
		self.rule = p["rule"] or self.rule
		for k, v in p["extra"].items():
			if isinstance(v, (int, float)) and isinstance(self.extra.get(k), (int, float)):
				if k.startswith("max_"):
					self.extra[k] = max(self.extra[k], v)
				elif k.startswith("min_"):
					self.extra[k] = min(self.extra[k], v)
				else:
					self.extra[k] += v
			else:
				self.extra.setdefault(k, v)
		if p["exhaustive"] is not None:
			self.exhaustive = p["exhaustive"] if self.exhaustive is None \
				else (self.exhaustive and p["exhaustive"])

	# ---- verdict -----------------------------------------------------------
	def absorb_build_stats(self):
		cb = sys.modules.get("vf.cbuild")
		if cb is not None:
			for k, v in cb.STATS.items():
				if v:
					self.count(k, v)
					cb.STATS[k] = 0
		sm = sys.modules.get("vf.sim")
		cap = getattr(sm, "_capture", None) if sm is not None else None
		if cap is not None and cap.low_records:
			# worlds run at the application's default log level: debug / info statements executed and formatted
			self.count("debug_and_info_log_records_formatted", cap.low_records)
			cap.low_records = 0

	def finish(self):
		""" Write evidence, print verdict lines, return the exit code. """
		self.absorb_build_stats()
		unknown = [v for v in self.violations if not v["known"]]
		known = [v for v in self.violations if v["known"]]

		for key, minimum in sorted(self.requirements.items()):
			if self.counters.get(key, 0) < minimum and not unknown:
				self.inconclusive.append("monitor '%s' observed %d events, needs >= %d"
					% (key, self.counters.get(key, 0), minimum))

		# replay files for unknown violations (first of each mechanism/sub)
		lines = []
		done = set()
		rdir = os.path.join(OUT, "replays", self.prop)
		for v in unknown:
			key = (v["sub"], v["mechanism"], v["what"])
			if key in done:
				continue
			done.add(key)
			os.makedirs(rdir, exist_ok = True)
			name = "%s-%s-%016x.json" % (v["sub"], v["mechanism"] or "unclassified",
				h64(v["witness"]))
			name = name.replace("/", "_").replace(" ", "_")
			path = os.path.join(rdir, name)
			with open(path, "w") as f:
				json.dump({"property": self.prop, "sub": v["sub"],
					"mechanism": v["mechanism"], "what": v["what"],
					"seed": self.seed, "tier": self.tier,
					"witness": v["witness"]}, f, indent = 1)
			lines.append("VIOLATION property=%s replay=%s" % (self.prop,
				os.path.relpath(path, VERIF)))
			if v["what"]:
				lines.append("  what: %s" % v["what"])
			if len(done) >= 20:
				break

		kdone = set()
		for v in known:
			if v["mechanism"] in kdone:
				continue
			kdone.add(v["mechanism"])
			e = self.known.open[(self.prop, v["mechanism"])]
			lines.append("KNOWN-FINDING: property=%s %s (mechanism %s, %d witnesses this run)"
				% (self.prop, e["what"], v["mechanism"],
				   self.counters["witness:%s" % v["mechanism"]]))

		if unknown:
			code = EXIT_VIOLATION
		elif self.inconclusive:
			code = EXIT_INCONCLUSIVE
		else:
			code = EXIT_HELD

		if self.replay is None:
			self.write_evidence(len(unknown))

		for l in lines:
			print(l)
		for r in self.inconclusive[:10]:
			print("INCONCLUSIVE property=%s reason=%s" % (self.prop, r))
		wall = time.time() - self.t0
		verdict = {0: "held on what was observed", 1: "VIOLATED", 2: "inconclusive"}[code]
		print("%s [%s seed=%d] %s: %d evaluations, %d distinct non-trivial, %.1fs"
			% (self.prop, self.tier, self.seed, verdict, self.evaluations,
			   len(self.distinct) + self.distinct_extra, wall))
		return code

	def write_evidence(self, n_viol):
		samples = []
		for kind, lst in sorted(self.samples.items()):
			for s in lst:
				samples.append({"kind": kind, "case": s})
		if not samples and self.violations:
			samples.append({"kind": "violation-witness", "case": self.violations[0]["witness"]})
		cov = {
			"evaluations": self.evaluations,
			"distinct_nontrivial": len(self.distinct) + self.distinct_extra,
			"rule": self.rule,
			"samples": samples,
			"observed": {k: v for k, v in sorted(self.counters.items())},
		}
		if self.exhaustive is not None:
			cov["exhaustive"] = bool(self.exhaustive)
		cov.update(jsonable(self.extra))
		ev = {
			"property_id": self.prop,
			"tier": self.tier,
			"seed": self.seed,
			"level": LEVEL,
			"coverage": cov,
			"assumptions": self.assumptions,
			"wall_s": round(time.time() - self.t0, 2),
			"violations": n_viol,
			"known_findings_seen": sorted({v["mechanism"] for v in self.violations if v["known"]}),
			"inconclusive": self.inconclusive[:10],
			"repo": REPO,
		}
		problems = validate_evidence(ev)
		if problems:
			self.inconclusive.append("evidence would not validate: %s" % "; ".join(problems))
		os.makedirs(os.path.join(OUT, "evidence"), exist_ok = True)
		path = os.path.join(OUT, "evidence", "%s.json" % self.prop)
		tmp = path + ".tmp.%d" % os.getpid()
		with open(tmp, "w") as f:
			json.dump(ev, f, indent = 1, sort_keys = False)
			f.write("\n")
		os.replace(tmp, path)


def validate_evidence(ev):
	""" The parts of EVIDENCE.schema.json that apply to level 'exploration'. """
	p = []
	for k in ("property_id", "tier", "seed", "level", "coverage", "wall_s"):
		if k not in ev:
			p.append("missing %s" % k)
	c = ev.get("coverage", {})
	if not isinstance(c.get("evaluations"), int) or c.get("evaluations", 0) < 1:
		p.append("evaluations < 1")
	if not isinstance(c.get("distinct_nontrivial"), int) or c.get("distinct_nontrivial", 0) < 2:
		p.append("distinct_nontrivial < 2")
	if not isinstance(c.get("rule"), str) or not c.get("rule"):
		p.append("rule missing")
	if not isinstance(c.get("samples"), list) or len(c.get("samples", [])) < 1:
		p.append("no samples")
	return p


# ---------------------------------------------------------------------------
# Sharded execution: the parent starts N copies of ./check with --shard i/N
# (subprocess + timeout, never multiprocessing.Pool) and merges the partials.

def run_sharded(ctx, nshards, timeout):
	os.makedirs(os.path.join(VERIF, "build"), exist_ok = True)
	procs = []
	os.environ["VERIF_PARENT_PID"] = str(os.getpid())
	for i in range(nshards):
		out = os.path.join(VERIF, "build", "partial-%s-%d-%d.json" % (ctx.prop, os.getpid(), i))
		cmd = [PY, os.path.join(VERIF, "vf", "main.py"), ctx.prop, "--tier", ctx.tier,
			"--seed", str(ctx.seed), "--shard", "%d/%d" % (i, nshards), "--partial", out]
		procs.append((i, out, subprocess.Popen(cmd, stdout = subprocess.PIPE,
			stderr = subprocess.STDOUT, cwd = VERIF)))
	t_end = time.time() + timeout
	for i, out, p in procs:
		try:
			stdout, _ = p.communicate(timeout = max(1, t_end - time.time()))
		except subprocess.TimeoutExpired:
			p.kill()
			stdout, _ = p.communicate()
			ctx.inconclusive_because("shard %d hit the watchdog (%ds)" % (i, timeout))
			continue
		if not os.path.exists(out):
			ctx.inconclusive_because("shard %d died without a result (exit %s): %s"
				% (i, p.returncode, stdout.decode(errors = "replace")[-400:]))
			continue
		with open(out) as f:
			ctx.merge_partial(json.load(f))
		os.unlink(out)


class Hang(BaseException):
	""" Raised by the case watchdog inside whatever the main thread is executing (BaseException, so
	    that an `except Exception` of the code under test cannot swallow it). """


class case_watchdog:
	""" Non-termination of the code under test, decided per generated case.

	    with case_watchdog(ctx, sub, witness, first = 20, second = 40): <one case, normally milliseconds>

	    A timer fires after `first` seconds and notes where the main thread is; if the *same case* is still
	    running `second` seconds later the case is abandoned: a violation ("does not terminate") when the
	    main thread was executing repository code both times, inconclusive when it was in the harness.
	    One case taking more than a minute is a slowdown of three orders of magnitude - machine load does
	    not produce that.  Only the main thread can be interrupted; elsewhere the guard does nothing. """

	def __init__(self, ctx, sub, witness, first = 20, second = 40):
		self.ctx, self.sub, self.witness = ctx, sub, witness
		self.first, self.second = first, second
		self.where = []

	def _innermost_repo_frame(self, frame):
		f = frame
		while f is not None:
			fn = f.f_code.co_filename
			if fn.startswith(REPO):
				return "%s:%d (%s)" % (os.path.relpath(fn, REPO), f.f_lineno, f.f_code.co_name)
			if fn.startswith(VERIF):
				return None          # the innermost interesting frame is the harness's own
			f = f.f_back
		return None

	def _on_alarm(self, sig, frame):
		import signal
		self.where.append(self._innermost_repo_frame(frame))
		if len(self.where) == 1:
			signal.setitimer(signal.ITIMER_REAL, self.second)
			return
		raise Hang()

	def __enter__(self):
		import signal
		import threading
		self.armed = threading.current_thread() is threading.main_thread()
		if self.armed:
			self.old = signal.signal(signal.SIGALRM, self._on_alarm)
			signal.setitimer(signal.ITIMER_REAL, self.first)
		return self

	def __exit__(self, et, ev, tb):
		import signal
		if self.armed:
			signal.setitimer(signal.ITIMER_REAL, 0)
			signal.signal(signal.SIGALRM, self.old)
		if et is Hang:
			w = self.witness() if callable(self.witness) else self.witness
			if all(self.where):
				self.ctx.count("cases_that_do_not_terminate")
				self.ctx.violation(self.sub, dict(w or {}, stuck_at = self.where), what =
					"does not terminate: one case still running after %d s (normally milliseconds), the main thread was in %s and then in %s"
					% (self.first + self.second, self.where[0], self.where[-1]))
			else:
				self.ctx.inconclusive_because("%s: a case ran for %d s inside the harness itself" % (self.sub, self.first + self.second))
			return True
		return False


def guard(ctx, sub, fn, *args):
	""" Run one sub-workload; an exception whose innermost frame is in /verif
	    is a harness error (inconclusive), never a silent pass. """
	try:
		fn(ctx, *args)
	except HarnessError as e:
		ctx.inconclusive_because("%s: %s" % (sub, e))
	except Exception as e:
		tb = traceback.extract_tb(e.__traceback__)
		txt = "".join(traceback.format_exception(type(e), e, e.__traceback__))[-1500:]
		# whose call raised?  walk from the innermost frame outwards, past library frames, to the first
		# frame that belongs to the repository or to the harness
		owner = next((f for f in reversed(tb) if f.filename.startswith(REPO) or f.filename.startswith(VERIF)), None)
		inner = owner.filename if owner else "?"
		if inner.startswith(REPO):
			# the real code raised where the harness expected a normal return
			ctx.violation(sub, {"exception": txt}, mechanism = None,
				what = "unexpected %s from repository code at %s:%d" %
					(type(e).__name__, os.path.relpath(inner, REPO), owner.lineno))
		else:
			ctx.inconclusive_because("%s: harness error: %s" % (sub, txt))


def quiet_logging():
	""" The toolkit logs through the root logger: keep it off stderr. """
	import logging
	root = logging.getLogger()
	for h in list(root.handlers):
		root.removeHandler(h)
	root.addHandler(logging.NullHandler())
	root.setLevel(logging.CRITICAL + 1)


def replay_case(ctx, data, workloads):
	""" Re-run exactly the generated case a witness came from.  workloads: name -> callable(ctx, rng, index). """
	c = data.get("witness", {}).get("_case")
	if not c or c.get("workload") not in workloads:
		return False
	ctx.seed = c["seed"]
	ctx.tier = c["tier"]
	ctx.shard = tuple(c["shard"])
	r = ctx.case_rng(c["workload"], c["index"])
	ctx.rule = "replay of generated case %s #%d (seed %d, tier %s, shard %d/%d)" % (c["workload"], c["index"], c["seed"], c["tier"], c["shard"][0], c["shard"][1])
	workloads[c["workload"]](ctx, r, c["index"])
	ctx.seen(("replay", 1)); ctx.seen(("replay", 2))
	ctx.requirements = {}
	return True

# Regenerates /verif/MANIFEST.json from the per-property table below.
import json, os, sys
sys.dont_write_bytecode = True
HERE = os.path.dirname(os.path.dirname(os.path.abspath(__file__)))

BASELINE_OFF = ("cd /repo && env -u OSMOCOM_BB_VERIF /venv/bin/python -m pytest -ra -q -p no:cacheprovider "
	"--timeout=900 --continue-on-collection-errors")

sys.path.insert(0, HERE)
from vf.manifest_table import TABLE, NOT_APPLICABLE  # noqa: E402

def main():
	checks = []
	for pid in sorted(TABLE):
		e = TABLE[pid]
		if not os.path.exists(os.path.join(HERE, "vf", "props", pid.lower() + ".py")):
			continue
		checks.append({
			"property_id": pid,
			"quick_cmd": "./check %s --tier quick" % pid,
			"thorough_cmd": "./check %s --tier thorough" % pid,
			"evidence_file": "evidence/%s.json" % pid,
			"replay_cmd_template": "./check %s --replay {path}" % pid,
			"engine": e["engine"],
			"level_claimed": {
				"category": "exploration",
				"text": e["text"],
				"design_ref": "DESIGN.md section 3, %s" % pid,
			},
			"level_note": e["note"],
			"technique": e["technique"],
		})
	claimed = {c["property_id"] for c in checks}
	na = [{"property_id": p, "reason": r} for p, r in sorted(NOT_APPLICABLE.items()) if p not in claimed]
	for pid in sorted(TABLE):
		if pid not in claimed and pid not in NOT_APPLICABLE:
			na.append({"property_id": pid, "reason": "check not built yet in this round (planned, see DESIGN.md section 3)"})
	m = {
		"version": 1,
		"setup_cmd": "./check --setup",
		"hooks": {
			"guard": "OSMOCOM_BB_VERIF",
			"enable": "none needed: all monitors attach from outside (subclassing, attribute replacement, sys.monitoring, link-time); no guarded hook exists in /repo",
			"baseline_off_cmd": BASELINE_OFF,
			"source_commits": [],
			"add_only": True,
		},
		"engines": [
			{"name": "pysim", "path": "vf/sim.py", "serves_properties": sorted(p for p in claimed if TABLE[p]["engine"] == "pysim"),
			 "kind_free_text": "real trx_toolkit objects on an in-memory UDP network (vnet), virtual clock (vclock), controlled thread scheduler (sched); monitors over recorded datagram/event histories"},
			{"name": "pyref", "path": "vf/ref", "serves_properties": sorted(p for p in claimed if TABLE[p]["engine"] == "pyref"),
			 "kind_free_text": "real trx_toolkit codec functions called from the harness; results compared online with independent reference models"},
			{"name": "csan", "path": "vf/cbuild.py", "serves_properties": sorted(p for p in claimed if TABLE[p]["engine"] == "csan"),
			 "kind_free_text": "real C translation units from /repo compiled with clang -fsanitize=address,undefined and, as a twin fed the same input, -fsanitize=memory (reports or diverging output fail the case); driven by op scripts; for C06 also sanitizer-coverage callbacks used as interrupt injection points; driver event logs checked against Python models"},
		],
		"checks": checks,
		"not_applicable": na,
		"notes": "Technique family: runtime monitoring and sanitizers. Exit codes: 0 held / only known findings, 1 violation (VIOLATION line + replay file), 2 inconclusive. See DESIGN.md.",
	}
	with open(os.path.join(HERE, "MANIFEST.json"), "w") as f:
		json.dump(m, f, indent = 1)
		f.write("\n")
	print("MANIFEST.json: %d checks, %d not_applicable" % (len(checks), len(na)))

if __name__ == "__main__":
	sys.path.insert(0, HERE)
	main()

# C16 - Declarative codec: encode and decode are mutually inverse and length-exact.
#
# Differential runtime monitor: random protocol definitions are instantiated
# with the real codec classes and with the reference interpreter
# vf/ref/codecref.py from the same AST; encodings, decodings, consumed
# lengths, canonical re-encodings and error classes are compared.

from vf import common
from vf.ref import codecref as cr

common.use_toolkit()
import codec   # noqa: E402

SHARDS = {"quick": 1, "thorough": 16}


# ---------------------------------------------------------------------------
# AST generation

class Gen:
	def __init__(self, r):
		self.r = r
		self.n = 0

	def name(self, p = "f"):
		self.n += 1
		return "%s%d" % (p, self.n)

	def g_int(self, small = False):
		r = self.r
		ln = r.choice((1, 1, 2, 2, 3, 4, 5, 8)) if not small else 1
		return {"k": "int", "name": self.name("i"), "len": ln, "bo": r.choice(("big", "little")),
			"signed": r.random() < 0.4 and not small, "offset": 0 if small or r.random() < .6 else r.choice((1, -1, 100, -5000, 2**40)),
			"mult": 1 if small or r.random() < .6 else r.choice((2, -1, 10, 256, -3)), "derive": None, "pres": None}

	def g_buf(self, ln = None):
		return {"k": "buf", "name": self.name("b"), "len": ln if ln is not None else self.r.randint(1, 12),
			"len_from": None, "pres": None}

	def g_spare(self):
		r = self.r
		return {"k": "spare", "name": self.name("s"), "len": r.randint(1, 4), "filler": bytes([r.choice((0, 0, 0xff, 0x2b))]), "pres": None}

	def g_bits(self):
		r = self.r
		order = r.choice(("big", "big", "little"))
		octets = r.randint(1, 4)
		total = 8 * octets
		if order == "big" and r.random() < 0.25:
			total -= r.randint(1, 7)          # MSB-first set padded in its low bits
		fields = []
		left = total
		while left > 0:
			bl = min(left, r.choice((1, 1, 2, 3, 4, 5, 7, 8, 12)))
			left -= bl
			x = r.random()
			if x < 0.15:
				fields.append({"name": None, "bl": bl, "val": None})
			elif x < 0.3:
				fields.append({"name": self.name("c"), "bl": bl, "val": r.getrandbits(bl)})
			else:
				fields.append({"name": self.name("v"), "bl": bl, "val": None})
		return {"k": "bits", "order": order, "len": octets, "fields": fields, "explicit_len": total != 8 * octets and r.random() < .5,
			"pres": None}

	def g_tlv(self):
		r = self.r
		if r.random() < 0.25:
			# the length lives in a bit-field of an earlier set
			bl = r.choice((3, 4, 6))
			rest = 8 - bl
			name = self.name("v")
			flds = [{"name": name, "bl": bl, "val": None}, {"name": self.name("v"), "bl": rest, "val": None}]
			if r.random() < .5:
				flds.reverse()
			B = {"k": "bits", "order": r.choice(("big", "little")), "len": 1, "fields": flds, "explicit_len": False, "pres": None}
			V = self.g_buf(0)
			V["len_from"] = name
			V["len_max"] = (1 << bl) - 1
			return [B, V]
		L = self.g_int(small = True)
		V = self.g_buf(0)
		V["len_from"] = L["name"]
		if r.random() < 0.25:
			# the whole length/value pair is optional, governed by an earlier flag
			flag = self.g_int(small = True)
			flag["is_flag"] = True
			L["pres"] = flag["name"]
			V["pres"] = flag["name"]
			return [flag, L, V]
		if r.random() < 0.5:
			L["derive"] = ("len_of", V["name"])
		return [L, V]

	def fixed_fields(self, depth, count):
		""" fields of a definite size, all unconditional """
		r = self.r
		out = []
		for _ in range(count):
			x = r.random()
			if x < 0.35:
				out.append(self.g_int())
			elif x < 0.5:
				out.append(self.g_buf())
			elif x < 0.6:
				out.append(self.g_spare())
			elif x < 0.85 or depth >= 3:
				out.append(self.g_bits())
			else:
				inner = self.fixed_fields(depth + 1, r.randint(1, 3))
				out.append({"k": "env", "name": self.name("e"), "len": cr.fixed_size(inner), "fields": inner, "pres": None})
		return out

	def item_fields(self, depth):
		r = self.r
		out = [self.g_int()] + self.fixed_fields(depth, r.randint(0, 2))
		if r.random() < 0.5:
			out += self.g_tlv()
		return out

	def body(self, depth):
		""" fields of an envelope; the last one may take the rest of the data """
		r = self.r
		out = []
		for _ in range(r.randint(1, 5)):
			x = r.random()
			if x < 0.55:
				out += self.fixed_fields(depth, 1)
			elif x < 0.7:
				out += self.g_tlv()
			elif x < 0.85:
				flag = self.g_int(small = True)
				flag["is_flag"] = True
				f = self.fixed_fields(depth, 1)[0]
				f["pres"] = flag["name"]
				out += [flag, f]
			elif depth < 3:
				item = self.item_fields(depth + 1)
				size = cr.fixed_size(item)
				if size:
					cnt = r.randint(0, 4)
					if cnt:
						out.append({"k": "seq", "name": self.name("q"), "len": size * cnt, "item": item, "count": cnt, "pres": None})
		x = r.random()
		if x < 0.2:
			out.append(self.g_buf(0))
		elif x < 0.35 and depth < 3:
			out.append({"k": "env", "name": self.name("e"), "len": 0, "fields": self.body(depth + 1), "pres": None})
		elif x < 0.5 and depth < 3:
			out.append({"k": "seq", "name": self.name("q"), "len": 0, "item": self.item_fields(depth + 1), "count": None, "pres": None})
		return out

	def definition(self):
		return {"fields": self.body(1), "check_len": self.r.random() < 0.7}


# ---------------------------------------------------------------------------
# the same AST as real codec objects

def mk_field(f):
	k = f["k"]
	if k == "int":
		cls = type("I%d%s%s" % (f["len"], f["bo"], "s" if f["signed"] else "u"), (codec.Uint,), {"BO": f["bo"], "SIGN": f["signed"]})
		o = cls(f["name"], len = f["len"], offset = f["offset"], mult = f["mult"])
		if f.get("derive"):
			o.get_val = lambda v, n = f["derive"][1]: len(v[n])
	elif k == "buf":
		o = codec.Buf(f["name"], len = f["len"]) if f["len"] else codec.Buf(f["name"])
		if f.get("len_from"):
			o.get_len = lambda v, _, n = f["len_from"]: v[n]
	elif k == "spare":
		o = codec.Spare(f["name"], len = f["len"], filler = f["filler"])
	elif k == "bits":
		fl = tuple(codec.BitField.Spare(b["bl"]) if b["name"] is None else codec.BitField(b["name"], b["bl"], val = b["val"])
			for b in f["fields"])
		kw = {"set": fl, "order": f["order"]}
		if f.get("explicit_len"):
			kw["len"] = f["len"]
		o = codec.BitFieldSet(**kw)
	elif k == "env":
		inner = type("N", (codec.Envelope,), {"STRUCT": tuple(mk_field(x) for x in f["fields"])})()
		o = inner.f(f["name"], len = f["len"]) if f["len"] else inner.f(f["name"])
	elif k == "seq":
		item = type("T", (codec.Envelope,), {"STRUCT": tuple(mk_field(x) for x in f["item"])})()
		s = codec.Sequence(item = item)
		o = s.f(f["name"], len = f["len"]) if f["len"] else s.f(f["name"])
	else:
		raise common.HarnessError(k)
	if f.get("pres"):
		o.get_pres = lambda v, n = f["pres"]: bool(v[n])
	return o


def mk_real(ast):
	cls = type("Def", (codec.Envelope,), {"STRUCT": tuple(mk_field(f) for f in ast["fields"])})
	return cls(check_len = ast["check_len"])


# ---------------------------------------------------------------------------
# values

def gen_vals(r, fields):
	v = {}
	for f in fields:
		k = f["k"]
		if f.get("pres") and not v[f["pres"]]:
			continue      # absent optional field: no value
		if k == "int":
			if f.get("derive"):
				continue
			if f.get("is_flag"):
				v[f["name"]] = r.choice((0, 1))
				continue
			bits = 8 * f["len"]
			lo, hi = (-(1 << (bits - 1)), (1 << (bits - 1)) - 1) if f["signed"] else (0, (1 << bits) - 1)
			raw = r.choice((lo, hi, 0 if lo <= 0 else lo, lo + 1, hi - 1)) if r.random() < 0.4 else r.randint(lo, hi)
			v[f["name"]] = raw * f["mult"] + f["offset"]
		elif k == "buf":
			if f.get("len_from"):
				n = r.choice((0, 1, 2, 255)) if r.random() < .3 else r.randint(0, 20)
				n = min(n, f.get("len_max", 255))
				v[f["name"]] = r.randbytes(n)
			else:
				v[f["name"]] = r.randbytes(f["len"] if f["len"] else r.randint(0, 16))
		elif k == "bits":
			for b in f["fields"]:
				if b["name"] is not None and b["val"] is None:
					v[b["name"]] = r.getrandbits(b["bl"])
		elif k == "env":
			v[f["name"]] = gen_vals(r, f["fields"])
		elif k == "seq":
			cnt = f["count"] if f.get("count") is not None else r.randint(0, 4)
			v[f["name"]] = [gen_vals(r, f["item"]) for _ in range(cnt)]
	# explicit length fields of TLVs that are not derived
	for f in fields:
		if f["k"] == "buf" and f.get("len_from") and f["name"] in v:
			lf = next((x for x in fields if x.get("name") == f["len_from"]), None)
			if lf is None or not lf.get("derive"):
				v[f["len_from"]] = len(v[f["name"]])
	return v


def subset(want, got):
	""" every value given for encoding comes back equal """
	if isinstance(want, dict):
		if not isinstance(got, dict):
			return False
		return all(k in got and subset(v, got[k]) for k, v in want.items())
	if isinstance(want, list):
		return isinstance(got, list) and len(want) == len(got) and all(subset(a, b) for a, b in zip(want, got))
	if isinstance(want, (bytes, bytearray)):
		return bytes(got) == bytes(want)
	return want == got


def norm(v):
	if isinstance(v, dict):
		return {k: norm(x) for k, x in v.items()}
	if isinstance(v, list):
		return [norm(x) for x in v]
	if isinstance(v, (bytes, bytearray, memoryview)):
		return bytes(v)
	return v


def shape(fields, depth = 1):
	kinds = set()
	d = depth
	for f in fields:
		kinds.add(f["k"] + ("/opt" if f.get("pres") else "") + ("/tlv" if f.get("len_from") else "") +
			("/" + f["order"] if f["k"] == "bits" else "") + ("/rest" if f["k"] != "bits" and f["len"] == 0 and not f.get("len_from") else ""))
		sub = f.get("fields") if f["k"] == "env" else f.get("item") if f["k"] == "seq" else None
		if sub:
			k2, d2 = shape(sub, depth + 1)
			kinds |= k2
			d = max(d, d2)
	return kinds, d


def real_decode(ctx, real, data):
	""" -> ("ok", values, consumed) | ("reject",) | ("other", exception) """
	try:
		used = real.from_bytes(data)
		return ("ok", norm(real.c), used)
	except codec.DecodeError:
		return ("reject",)
	except Exception as e:
		return ("other", e)


def ref_decode(ast, data):
	try:
		v, used = cr.decode(ast, data)
		return ("ok", v, used)
	except cr.Reject:
		return ("reject",)


def check_definition(ctx, r, idx):
	g = Gen(r)
	ast = g.definition()
	kinds, depth = shape(ast["fields"])
	for k in kinds:
		ctx.count("shape:%s" % k)
	ctx.count("depth:%d" % depth)
	w = {"definition": ast}
	try:
		real = mk_real(ast)
		# a second instance of the very same definition class: the two share the field objects of the
		# class and must not disturb each other
		other = type(real)(check_len = ast["check_len"])
	except Exception as e:
		ctx.violation("build", w, what = "the codec refuses a definition composed from its building blocks: %s: %s" % (type(e).__name__, e))
		return
	ctx.seen(common.h64(repr(ast)))
	ctx.count("definitions")
	nsets = 12 if ctx.tier == "quick" else 20
	for s in range(nsets):
		V = gen_vals(r, ast["fields"])
		w = {"definition": ast, "values": V}
		try:
			want = cr.encode(ast, V)
		except cr.Reject:
			ctx.count("generator_made_unencodable_values")
			continue
		# encode
		real.c.clear()
		real.c.update(V)
		try:
			enc = bytes(real.to_bytes())
		except Exception as e:
			ctx.violation("encode", w, what = "to_bytes() fails on in-range values: %s" % type(e).__name__)
			return
		ctx.count("encodings")
		if enc != want:
			ctx.violation("encode", dict(w, got = enc[:40].hex(), expected = want[:40].hex()),
				what = "to_bytes() differs from the definition's declared layout")
			return
		# decode the encoding (every other time with the second instance of the definition)
		dec_inst = other if s % 2 else real
		if s % 2:
			ctx.count("decoded_by_second_instance")
		res = real_decode(ctx, dec_inst, enc)
		if res[0] != "ok":
			ctx.violation("decode", dict(w, octets = enc[:40].hex()), what = "from_bytes() rejects the encoding of in-range values (%s)"
				% (res[0] if res[0] == "reject" else type(res[1]).__name__))
			return
		if not subset(V, res[1]) or res[2] != len(enc):
			ctx.violation("decode", dict(w, decoded = res[1], consumed = res[2], length = len(enc)),
				what = "decoding the encoding does not return the values / consumes %d of %d octets" % (res[2], len(enc)))
			return
		# decoded out of a buffer that is re-used afterwards: the decoded values must be the message's own
		buf = bytearray(enc)
		try:
			used2 = dec_inst.from_bytes(buf)
			for k in range(len(buf)):
				buf[k] = 0xa5
			after = norm(dec_inst.c)
		except Exception as e:
			ctx.violation("decode", dict(w, octets = enc[:40].hex()), what = "decoding from a bytearray that is re-used afterwards: %s" % type(e).__name__)
			return
		ctx.count("decoded_from_reused_buffer")
		if after != res[1] or used2 != res[2]:
			ctx.violation("decode", dict(w, decoded = res[1], after_reuse = after),
				what = "decoded values change when the input buffer is re-used (they alias the caller's buffer)")
			return
		# canonical re-encoding of the decoded message
		try:
			again = bytes(dec_inst.to_bytes())
		except Exception as e:
			ctx.violation("reencode", w, what = "re-encoding a decoded message fails: %s" % type(e).__name__)
			return
		if again != enc:
			ctx.violation("reencode", dict(w, first = enc[:40].hex(), second = again[:40].hex()),
				what = "re-encoding a decoded message does not reproduce the canonical octets")
			return
		ctx.count("roundtrips")
		# mutated / random inputs: accept-reject differential with the reference
		for mk in range(4):
			x = r.random()
			if x < 0.3 and len(enc) > 0:
				data = enc[:r.randrange(len(enc))]
				kind = "truncated"
			elif x < 0.5:
				data = enc + r.randbytes(r.randint(1, 4))
				kind = "trailing"
			elif x < 0.8 and len(enc) > 0:
				b = bytearray(enc)
				for _ in range(r.randint(1, 3)):
					b[r.randrange(len(b))] ^= 1 << r.randrange(8)
				data = bytes(b)
				kind = "bitflip"
			else:
				data = r.randbytes(r.randint(0, max(4, len(enc) + 2)))
				kind = "random"
			a = real_decode(ctx, real, data)
			b = ref_decode(ast, data)
			ctx.count("inputs_%s_%s" % (kind, b[0]))
			if a[0] == "other":
				ctx.violation("errors", dict(w, octets = data[:40].hex(), kind = kind),
					what = "from_bytes() raises %s instead of DecodeError" % type(a[1]).__name__)
				return
			if a[0] != b[0]:
				ctx.violation("accept", dict(w, octets = data[:40].hex(), kind = kind, reference = b[0], codec = a[0]),
					what = "codec %ss a %s input that the definition %ss" % (a[0] if a[0] == "reject" else "accept", kind,
						b[0] if b[0] == "reject" else "accept"))
				return
			if a[0] == "ok":
				if a[1] != norm(b[1]) or a[2] != b[2]:
					ctx.violation("decode", dict(w, octets = data[:40].hex(), decoded = a[1], reference = b[1], consumed = [a[2], b[2]]),
						what = "an accepted input decodes to other values / another consumed length than the definition declares")
					return
				try:
					canon = cr.encode(ast, b[1])
					again = bytes(real.to_bytes())
				except cr.Reject:
					canon = again = None
				except Exception as e:
					ctx.violation("reencode", dict(w, octets = data[:40].hex()), what = "re-encoding an accepted input fails: %s" % type(e).__name__)
					return
				if canon != again:
					ctx.violation("reencode", dict(w, octets = data[:40].hex(), canonical = (canon or b"")[:40].hex(), got = (again or b"")[:40].hex()),
						what = "re-encoding an accepted input does not give the canonical octets (spare bits zero, fixed values)")
					return
		# unencodable values must be refused with EncodeError
		if not error_paths(ctx, r, ast, real, V, w):
			return
	if idx < 3:
		ctx.sample("definition", {"ast": ast, "shape": sorted(kinds)})


def error_paths(ctx, r, ast, real, V, w):
	top = ast["fields"]
	ints = [f for f in top if f["k"] == "int" and not f.get("derive") and cr.present(f, V) and not f.get("is_flag")
		and not any(x.get("len_from") == f["name"] for x in top)]
	if ints:
		f = r.choice(ints)
		bits = 8 * f["len"]
		lo, hi = (-(1 << (bits - 1)), (1 << (bits - 1)) - 1) if f["signed"] else (0, (1 << bits) - 1)
		raw = r.choice((lo - 1, hi + 1, hi + 1000, lo - 2**70))
		V2 = dict(V)
		V2[f["name"]] = raw * f["mult"] + f["offset"]
		if not expect_encode_error(ctx, real, V2, dict(w, field = f["name"], value = V2[f["name"]]), "an integer that does not fit its field"):
			return False
		ctx.count("unencodable_int_refused")
	bufs = [f for f in top if f["k"] == "buf" and f["len"] > 0 and cr.present(f, V)]
	if bufs:
		f = r.choice(bufs)
		V2 = dict(V)
		V2[f["name"]] = r.randbytes(f["len"] + r.choice((-1, 1, 5)))
		if not expect_encode_error(ctx, real, V2, dict(w, field = f["name"]), "a buffer of the wrong length"):
			return False
		ctx.count("unencodable_buf_refused")
	sets = [f for f in top if f["k"] == "bits" and cr.present(f, V)]
	if sets:
		f = r.choice(sets)
		named = [b for b in f["fields"] if b["name"] is not None and b["val"] is None]
		if named:
			b = r.choice(named)
			V2 = dict(V)
			V2[b["name"]] = V[b["name"]] + (r.randint(1, 1000) << b["bl"])
			real.c.clear()
			real.c.update(V2)
			try:
				got = bytes(real.to_bytes())
			except Exception as e:
				ctx.violation("overwide", dict(w, field = b["name"]), what = "an over-wide bit-field value raises %s" % type(e).__name__)
				return False
			if got != cr.encode(ast, V):
				ctx.violation("overwide", dict(w, field = b["name"], value = V2[b["name"]]),
					what = "an over-wide bit-field value is not truncated to its width / disturbs neighbouring fields")
				return False
			ctx.count("overwide_truncated")
	return True


def expect_encode_error(ctx, real, V2, w, what):
	real.c.clear()
	real.c.update(V2)
	try:
		real.to_bytes()
	except codec.EncodeError:
		return True
	except Exception as e:
		ctx.violation("errors", w, what = "%s raises %s instead of EncodeError" % (what, type(e).__name__))
		return False
	ctx.violation("errors", w, what = "%s is encoded instead of being rejected" % what)
	return False


def loose_presence(ctx, r, idx):
	""" Presence callbacks that do not return a bool (a flag value 0 / 1, a masked bit, None, a string).  What such a result
	    means is the codec's business; encoder and decoder must agree on it: the encoding decodes without error, every
	    decoded field that was given for encoding comes back equal, and re-encoding reproduces the octets. """
	style = r.randrange(5)
	cb = [lambda v: v["flag"], lambda v: v["flag"] & 1, lambda v: v["flag"] or None,
		lambda v: "" if v["flag"] == 0 else "yes", lambda v: [] if v["flag"] % 2 == 0 else [1]][style]
	n_opt = r.randint(1, 4)
	opt_kind = r.randrange(3)
	tail_len = r.choice((1, 2, 4))
	bo = r.choice(("big", "little"))

	def build():
		flag = codec.Uint("flag", len = 1)
		if opt_kind == 0:
			opt = type("U", (codec.Uint,), {"BO": bo})("opt", len = n_opt)
		elif opt_kind == 1:
			opt = codec.Buf("opt", len = n_opt)
		else:
			inner = type("N", (codec.Envelope,), {"STRUCT": (codec.Uint("x", len = 1), codec.Buf("y", len = n_opt))})()
			opt = inner.f("opt", len = 1 + n_opt)
		opt.get_pres = cb
		tail = codec.Buf("tail", len = tail_len)
		return type("Loose", (codec.Envelope,), {"STRUCT": (flag, opt, tail)})(check_len = True)
	for flagval in (0, 1, 2, 3, r.randrange(256)):
		real = build()
		V = {"flag": flagval, "tail": r.randbytes(tail_len)}
		V["opt"] = r.getrandbits(8 * n_opt) if opt_kind == 0 else r.randbytes(n_opt) if opt_kind == 1 \
			else {"x": r.randrange(256), "y": r.randbytes(n_opt)}
		w = {"presence_callback_style": ["flag value", "flag & 1", "flag or None", "'' / 'yes'", "[] / [1]"][style],
			"optional_field": ["Uint", "Buf", "nested envelope"][opt_kind], "values": repr(V)[:200]}
		ctx.seen(hash(("loose", style, opt_kind, n_opt, tail_len, flagval)))
		real.c.clear()
		real.c.update(V)
		try:
			enc = bytes(real.to_bytes())
		except Exception as e:
			ctx.violation("loose-presence", w, what = "to_bytes() fails although a value is given for every field: %s" % type(e).__name__)
			return
		other = build()
		res = real_decode(ctx, other, enc)
		ctx.count("loose_presence_roundtrips")
		if res[0] != "ok":
			ctx.violation("loose-presence", dict(w, encoded = enc.hex()),
				what = "the decoder does not accept what the encoder produced for a presence callback returning %r (%s)"
				% (cb(V), "DecodeError" if res[0] == "reject" else type(res[1]).__name__))
			return
		_, got, used = res
		bad = [k for k in got if k in V and not subset(V[k], got[k])]
		if bad or used != len(enc):
			ctx.violation("loose-presence", dict(w, encoded = enc.hex(), decoded = repr(got)[:200]),
				what = "encoder and decoder disagree on a presence callback returning %r: %s" % (cb(V),
				("fields %s differ" % bad) if bad else "%d of %d octets consumed" % (used, len(enc))))
			return
		try:
			again = bytes(other.to_bytes())
		except Exception as e:
			ctx.violation("loose-presence", w, what = "re-encoding the decoded message fails: %s" % type(e).__name__)
			return
		if again != enc:
			ctx.violation("loose-presence", dict(w, encoded = enc.hex(), again = again.hex()), what = "re-encoding the decoded message gives other octets")
			return


def run(ctx):
	ctx.rule = ("random protocol definitions (integers of 1..8 octets, both byte orders, signed/unsigned, offset and multiplier; fixed, "
		"length-prefixed and rest-of-data buffers; spares; MSB- and LSB-first bit-field sets of 1..4 octets with fixed-value and spare "
		"members; nested envelopes to depth 3; sequences of TLV-like items; optional fields governed by an earlier flag; check_len "
		"on/off) x 12-20 value sets x 4 mutated/random inputs each; distinct = distinct definitions by hash; all non-trivial")
	ctx.assume("not generated: zero-length sequence items, LSB-first sets that do not fill their octets, values off the offset/multiplier lattice")
	r = ctx.rng("c16")
	for i in range(ctx.scale(3000, 200000)):
		with common.case_watchdog(ctx, "definition", {"definition_index": i}):
			check_definition(ctx, r, i)
		if ctx.too_many() or ctx.time_left() < 0:
			break
	rl = ctx.rng("c16-loose")
	for i in range(ctx.scale(300, 20000)):
		if ctx.mine(i):
			loose_presence(ctx, rl, i)
		if ctx.too_many():
			break
	ctx.require("definitions", 200)
	ctx.require("loose_presence_roundtrips", 100)
	ctx.require("roundtrips", 2000)
	for k in ("truncated_reject", "trailing_reject", "bitflip_ok", "bitflip_reject", "random_reject", "trailing_ok"):
		ctx.require("inputs_" + k, 20)
	ctx.require("unencodable_int_refused", 100)
	ctx.require("unencodable_buf_refused", 100)
	ctx.require("overwide_truncated", 100)
	ctx.require("decoded_by_second_instance", 500)
	for k in ("shape:bits/little", "shape:bits/big", "shape:env", "shape:seq", "shape:buf/tlv", "depth:3"):
		ctx.require(k, 20)


def replay(ctx, data):
	ctx.rule = "replay: definitions are regenerated from the seed; rerunning the check with the recorded seed"
	ctx.seed = data.get("seed", 0)
	run(ctx)

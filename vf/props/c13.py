# C13 - Validation accepts exactly the protocol value ranges; nothing invalid is sent.
#
# Monitor shape: accept/reject differential between the real validate() /
# gen_msg() / DATAInterface.send_msg() and the range table of vf/ref/trxd.valid,
# over every single and pairwise boundary deviation of valid base messages.

import itertools

from vf import common, msgs, sim
from vf.ref import trxd

SHARDS = {"quick": 1, "thorough": 16}

H = trxd.HYPERFRAME
DEV = {
	"ver": [-1, 0, 1, 2, 15, 16],
	"fn": [-1, 0, 1, H - 2, H - 1, H, H + 1, None],
	"tn": [-1, 0, 1, 6, 7, 8, None],
	"pwr": [-1, 0, 1, 254, 255, 256, None],
	"rssi": [-121, -120, -119, -48, -47, -46, 0, None, 47, 77, 120, 121],
	"toa256": [-32769, -32768, -32767, 32766, 32767, 32768, None],
	"ci": [-1281, -1280, -1279, 1279, 1280, 1281, None],
	"tsc": [-1, 0, 1, 6, 7, 8, None],
	"tsc_set": [-1, 0, 1, 2, 3, 4, None],
	"mod": list(trxd.MODS) + [None],
	"nope": [False, True],
	"blen": [None, 0, 1, 147, 148, 149, 295, 296, 297, 443, 444, 445, 591, 592, 593, 739, 740, 741],
}
TX_FIELDS = ["ver", "fn", "tn", "pwr", "blen"]
RX_FIELDS = ["ver", "fn", "tn", "rssi", "toa256", "ci", "tsc", "tsc_set", "mod", "nope", "blen"]


def mechanism_of(m):
	""" Narrow classifier for known findings: returns a mechanism name only
	    when the *sole* reason the message is invalid is that one. """
	if m.get("fn") == H:
		m2 = dict(m)
		m2["fn"] = H - 1
		if trxd.valid(m2):
			return "fn-equals-hyperframe"
	return None


def apply(m, field, value, r):
	m = dict(m)
	if field == "blen":
		k = "bits" if m["dir"] == "tx" else "soft"
		if value is None:
			m[k] = None
		elif m["dir"] == "tx":
			m[k] = bytes(r.getrandbits(1) for _ in range(value))
		else:
			m[k] = [r.randint(-127, 127) for _ in range(value)]
	else:
		m[field] = value
	return m


class SendProbe:
	""" A real DATAInterface on vnet; counts the datagrams send_msg() emits. """

	def __init__(self):
		self.world = sim.World(0)
		self.ep = self.world.net.endpoint("127.0.0.1", 7102)
		self.dif = sim.transceiver.DATAInterface("127.0.0.1", 7102, "127.0.0.1", 7002)

	def send(self, obj, legacy):
		self.dif.send_msg(obj, legacy)
		return [d for d, _ in self.ep.take_all()]


def evaluate(ctx, probe, m, sub, tag):
	expect = trxd.valid(m)
	witness = {"msg": m, "case": tag}
	obj = msgs.to_real(m)
	ctx.seen(hash((trxd.key(m), tag)), nontrivial = True)
	ctx.count("expected_%s" % ("valid" if expect else "invalid"))

	# 1. validate()
	try:
		obj.validate()
		accepted = True
	except ValueError:
		accepted = False
	except Exception as e:
		ctx.violation(sub, witness, what = "validate() raised %s instead of ValueError "
			% (type(e).__name__))
		return
	if accepted != expect:
		ctx.violation(sub, witness, mechanism = mechanism_of(m) if accepted else None,
			what = "validate() %s a message the range table calls %s"
			% ("accepts" if accepted else "rejects", "valid" if expect else "invalid"))
		return
	ctx.count("validate_agreements")

	# 2. gen_msg(): refused with ValueError for exactly the invalid ones
	for legacy in (False, True):
		try:
			data = obj.gen_msg(legacy)
			gen_ok = True
		except ValueError:
			gen_ok = False
		except Exception as e:
			ctx.violation(sub, witness, what = "gen_msg() raised %s instead of ValueError"
				% (type(e).__name__))
			return
		if gen_ok != expect:
			ctx.violation(sub, witness, mechanism = mechanism_of(m) if gen_ok else None,
				what = "gen_msg() %s" %
				("encodes an invalid message" if gen_ok else "refuses a valid message"))
			return
		if gen_ok and bytes(data) != trxd.encode(m, legacy):
			ctx.violation(sub, witness, what = "gen_msg() octets differ from the layout")
			return
	ctx.count("gen_agreements")

	# 3. DATAInterface.send_msg(): a datagram iff valid
	try:
		sent = probe.send(obj, False)
	except Exception as e:
		ctx.violation(sub, witness, what = "send_msg() raised %s" % type(e).__name__)
		return
	if (len(sent) == 1) != expect or len(sent) > 1:
		ctx.violation(sub, witness, mechanism = mechanism_of(m) if sent else None,
			what = "send_msg() put %d datagram(s) on the wire for a%s message"
			% (len(sent), " valid" if expect else "n invalid"))
		return
	ctx.count("send_agreements")
	if not expect:
		ctx.count("invalid_offered_to_send")


def bases(r):
	out = []
	for ver in (0, 1):
		for n in (148, 444):
			out.append(("tx/v%d/%d" % (ver, n), trxd.rand_tx(r, ver = ver, n = n)))
	for n in (148, 444):
		m = trxd.rand_rx(r, ver = 0)
		m["soft"] = trxd.rand_soft(r, n)
		out.append(("rx/v0/%d" % n, m))
	for mod in trxd.MODS:
		out.append(("rx/v1/%s" % mod, trxd.rand_rx(r, ver = 1, nope = False, mod = mod)))
	out.append(("rx/v1/nope", trxd.rand_rx(r, ver = 1, nope = True)))
	return out


def run(ctx):
	ctx.rule = ("for every message class (direction x version x burst length / modulation x NOPE) a valid "
		"base message; every field set to values below, on and above its range boundaries and None; all single "
		"deviations and all pairs of deviations (thorough: also random triples); each case goes through the real "
		"validate(), gen_msg() (both legacy settings) and DATAInterface.send_msg() on vnet and is compared with the "
		"range table vf/ref/trxd.valid; distinct = distinct (message, deviation tag); every case is non-trivial")
	probe = SendProbe()
	r = ctx.rng("c13")
	idx = 0
	for cls, base in bases(r):
		fields = TX_FIELDS if base["dir"] == "tx" else RX_FIELDS
		if ctx.mine(idx):
			evaluate(ctx, probe, base, "base", cls)
		idx += 1
		# single deviations
		for f in fields:
			for v in DEV[f]:
				idx += 1
				if not ctx.mine(idx):
					continue
				m = apply(base, f, v, r)
				evaluate(ctx, probe, m, "single", "%s:%s=%r" % (cls, f, v))
				ctx.count("dev:%s" % f)
				if idx % 97 == 0:
					ctx.sample("single", {"class": cls, "field": f, "value": v, "expected_valid": trxd.valid(m)})
		# pairs
		pairs = list(itertools.combinations(fields, 2))
		for (f1, f2) in pairs:
			for v1 in DEV[f1]:
				for v2 in DEV[f2]:
					idx += 1
					if not ctx.mine(idx):
						continue
					if ctx.tier == "quick" and (idx % 3):
						continue
					m = apply(apply(base, f1, v1, r), f2, v2, r)
					evaluate(ctx, probe, m, "pair", "%s:%s=%r,%s=%r" % (cls, f1, v1, f2, v2))
					ctx.count("pairs")
		if ctx.too_many():
			break
	# random triples / fully random assignments
	n = ctx.scale(5000, 800000)
	bl = bases(r)
	for k in range(n):
		cls, base = bl[r.randrange(len(bl))]
		fields = TX_FIELDS if base["dir"] == "tx" else RX_FIELDS
		m = base
		tag = []
		for f in r.sample(fields, r.choice((1, 2, 3, 3, 4))):
			v = r.choice(DEV[f])
			m = apply(m, f, v, r)
			tag.append("%s=%r" % (f, v))
		evaluate(ctx, probe, m, "multi", cls + ":" + ",".join(tag))
		ctx.count("multi")
		if k < 3:
			ctx.sample("multi", {"class": cls, "deviation": tag, "expected_valid": trxd.valid(m)})
	ctx.extra["datagrams_seen_for_invalid_messages"] = 0 if not ctx.counters["violation_witnesses"] else None
	ctx.require("validate_agreements", 500)
	ctx.require("invalid_offered_to_send", 100)
	ctx.require("expected_valid", 50)


def replay(ctx, data):
	w = common.unjson(data["witness"])
	ctx.rule = "replay of one recorded case"
	m = w["msg"]
	evaluate(ctx, SendProbe(), m, data["sub"], "replay")

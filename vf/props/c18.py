# C18 - Burst-loss simulation drops exactly the requested bursts.
#
# Per-burst outcome monitor against a drop-counter model (vf/radio.py Budget)
# on real FakeTRX pairs over vnet: delivered / one NOPE indication / nothing.

from vf import common, radio
from vf.ref import trxd

SHARDS = {"quick": 1, "thorough": 16}


def run_stream(ctx, r, idx):
	three = r.random() < 0.35
	specs = [{"base_port": 5700, "name": "A"}, {"base_port": 6700, "name": "B"}]
	if three:
		specs.append({"base_port": 7700, "name": "C"})
	elif r.random() < 0.3:
		specs.append({"base_port": 6700, "child_of": 1, "child_idx": 1, "name": "B/1"})   # a child: its loss simulation is its own
	bench = radio.Bench(r.getrandbits(30), specs)
	n = len(specs)
	log = []
	overlap_free = r.random() < 0.8   # most histories never mute while a drop budget is pending

	def cmd(i, text):
		st, mst = bench.cmd(i, text)
		log.append("%s: %s -> %d" % (specs[i]["name"], text, st))
		ctx.count("cmd:%s:%d" % (text.split(" ")[0], st))
		if st != mst:
			ctx.violation("command", {"history": log[-15:]},
				what = "%s answered %d, expected %d" % (text.split(" ")[0], st, mst))
			return False
		return True

	for i in range(n):
		rx, tx = (890000, 935000) if i == 0 else (935000, 890000)
		if not (cmd(i, "RXTUNE %d" % rx) and cmd(i, "TXTUNE %d" % tx) and
			cmd(i, "SETFORMAT %d" % r.choice((0, 1)))):
			return
	for i in range(n):
		if not bench.models[i].running and not cmd(i, "POWERON"):
			return
	ctx.count("version_combo:%s" % "/".join(str(m.ver) for m in bench.models))
	nb = r.randint(50, 400) if ctx.tier == "thorough" else r.randint(50, 200)
	fn = r.randrange(trxd.HYPERFRAME)
	fn_mode = r.randrange(3)
	for b in range(nb):
		# commands between bursts
		x = r.random()
		if x < 0.12:
			i = r.randrange(n)
			muted_any = any(m.muted for m in bench.models)
			if not (overlap_free and muted_any):
				amount = r.choice((0, 1, 2, 3, 5, 10, 50, 255, 256, 300)) if r.random() < .8 else r.randint(0, 50)
				if r.random() < 0.5:
					c = "FAKE_DROP %d" % amount
				else:
					c = "FAKE_DROP %d %d" % (amount, r.choice((1, 2, 3, 4, 13, 26, 51, 60)))
				if not cmd(i, c):
					return
		elif x < 0.16:
			# must be rejected without changing state
			i = r.randrange(n)
			c = r.choice(("FAKE_DROP -1", "FAKE_DROP -5 3", "FAKE_DROP 3 0", "FAKE_DROP 3 -2", "FAKE_DROP -1 -1", "FAKE_DROP 0 0"))
			if not cmd(i, c):
				return
			ctx.count("rejected_commands")
		elif x < 0.22:
			i = r.randrange(n)
			pending = any(bd.hi > 0 for bd in bench.budgets)
			v = r.choice((0, 1, 1))
			if not (overlap_free and pending and v == 1):
				if not cmd(i, "RFMUTE %d" % v):
					return
		elif x < 0.25:
			if not cmd(r.randrange(n), "SETFORMAT %d" % r.choice((0, 1, 0, 1, 2, 5, 15))):
				return
		# one burst
		s = r.randrange(n)
		if fn_mode == 0:
			fn = (fn + 1) % trxd.HYPERFRAME
		elif fn_mode == 1:
			fn = (fn + r.choice((0, 0, 1, 2, 13, 26, 51, -1, -7))) % trxd.HYPERFRAME
		else:
			fn = r.randrange(trxd.HYPERFRAME)
		bits = trxd.rand_bits(r, r.choice((148, 148, 148, 444)))
		m = {"dir": "tx", "ver": bench.models[s].ver, "fn": fn, "tn": r.randrange(8),
		     "pwr": r.choice((0, 3, 10)), "bits": bits}
		rcpt = bench.recipients(s, fn)
		acc, got = bench.transmit(s, m)
		ctx.count("bursts")
		if not acc:
			ctx.violation("transmit", {"history": log[-15:], "burst": trxd.brief(m)},
				what = "valid burst not accepted by the sender")
			return
		for j in range(n):
			if j not in rcpt:
				if got[j]:
					ctx.violation("routing", {"history": log[-15:], "recipient": specs[j]["name"]},
						what = "datagram delivered to a transceiver that must not receive it")
				continue
			bd = bench.budgets[j]
			before = (bd.lo, bd.hi, bd.period)
			e = radio.expected(bench.models[s], bench.models[j], bd, m, bits)
			res = radio.check(e, got[j], bd)
			ctx.count("outcomes_checked")
			ctx.count("expected:%s%s" % (e["kind"], (":" + e["cause"]) if "cause" in e else ""))
			if e.get("ambiguous_budget"):
				ctx.count("ambiguous_budget_bursts")
			ctx.seen(hash((ctx.shard[0], idx, b, j)))
			if isinstance(res, str):
				ctx.violation("outcome", {"history": log[-20:], "burst": trxd.brief(m), "sender": specs[s]["name"],
					"recipient": specs[j]["name"], "budget_before": before,
					"recipient_version": bench.models[j].ver,
					"mute": [mm.muted for mm in bench.models],
					"datagrams": [d[:12].hex() for d in got[j]]}, what = res)
				return
	if idx < 3:
		ctx.sample("stream", {"history_tail": log[-12:], "bursts": nb})


def run(ctx):
	ctx.rule = ("streams of 50-400 bursts (consecutive, jittering and arbitrary frame numbers) through real FakeTRX pairs/triples in all "
		"version combinations with FAKE_DROP n [period] (n 0..50, period 1..60), rejected FAKE_DROP forms, RFMUTE and SETFORMAT between "
		"bursts; each (burst, recipient) outcome compared with the counter model; distinct = distinct (stream, burst, recipient); "
		"all non-trivial")
	ctx.assume("where RF mute and a pending drop budget overlap, both budget outcomes are accepted (the statement is silent)")
	r = ctx.rng("c18")
	for i in range(ctx.scale(400, 60000)):
		run_stream(ctx, ctx.case_rng("stream", i), i)
		ctx.count("streams")
		if ctx.too_many() or ctx.time_left() < 0:
			break
	ctx.current_case = None
	ctx.require("outcomes_checked", 5000)
	ctx.require("expected:nope:drop", 200)
	ctx.require("expected:none:drop", 200)
	ctx.require("expected:nope:mute", 50)
	ctx.require("expected:none:mute", 50)
	ctx.require("expected:burst", 2000)
	ctx.require("rejected_commands", 50)


def replay(ctx, data):
	if common.replay_case(ctx, data, {"stream": run_stream}):
		return
	ctx.rule = "replay: no case coordinates in the witness; rerunning the check with the recorded seed"
	ctx.seed = data.get("seed", 0)
	run(ctx)

# C18 - Burst-loss simulation drops exactly the requested bursts.
#
# Per-burst outcome monitor against a drop-counter model (vf/radio.py Budget)
# on real FakeTRX pairs over vnet: delivered / one NOPE indication / nothing.

from vf import common, radio, sched, sim
from vf.ref import trxd

SHARDS = {"quick": 1, "thorough": 16}


def run_stream(ctx, r, idx):
	three = r.random() < 0.35
	specs = [{"base_port": 5700, "name": "A"}, {"base_port": 6700, "name": "B"}]
	if three:
		specs.append({"base_port": 7700, "name": "C"})
	elif r.random() < 0.3:
		specs.append({"base_port": 6700, "child_of": 1, "child_idx": 1, "name": "B/1"})   # a child: its loss simulation is its own
	bench = radio.Bench(r.getrandbits(30), specs)
	n = len(specs)
	log = []
	overlap_free = r.random() < 0.8   # most histories never mute while a drop budget is pending

	def cmd(i, text):
		st, mst = bench.cmd(i, text)
		log.append("%s: %s -> %d" % (specs[i]["name"], text, st))
		ctx.count("cmd:%s:%d" % (text.split(" ")[0], st))
		if st != mst:
			ctx.violation("command", {"history": log[-15:]},
				what = "%s answered %d, expected %d" % (text.split(" ")[0], st, mst))
			return False
		return True

	for i in range(n):
		rx, tx = (890000, 935000) if i == 0 else (935000, 890000)
		if not (cmd(i, "RXTUNE %d" % rx) and cmd(i, "TXTUNE %d" % tx) and
			cmd(i, "SETFORMAT %d" % r.choice((0, 1))) and
			# (a sender's timing advance and attenuation and the recipient's simulated values are none of a NOPE's business)
			cmd(i, "SETTA %d" % r.choice((0, 0, 1, 5, 63))) and cmd(i, "SETPOWER %d" % r.choice((0, 0, 10))) and
			cmd(i, "FAKE_TOA %d 0" % r.choice((0, 0, 100, -300))) and cmd(i, "FAKE_CI %d 0" % r.choice((90, 90, 40))) and
			# (a simulated level below the noise level is legal down to -120: the NOPE indication still carries the noise level)
			(r.random() < 0.7 or cmd(i, "FAKE_RSSI %d 0" % r.choice((-116, -120, -111, -60))))):
			return
	for i in range(n):
		if not bench.models[i].running and not cmd(i, "POWERON"):
			return
	ctx.count("version_combo:%s" % "/".join(str(m.ver) for m in bench.models))
	nb = r.randint(50, 400) if ctx.tier == "thorough" else r.randint(50, 200)
	fn = r.randrange(trxd.HYPERFRAME)
	fn_mode = r.randrange(4)
	if fn_mode == 3:
		# consecutive frames across the hyperframe wrap: frame 0 is a multiple of every period
		fn = trxd.HYPERFRAME - 1 - r.randrange(nb)
		ctx.count("streams_across_the_hyperframe_wrap")
	for b in range(nb):
		# commands between bursts
		for j in range(n):
			if not bench.models[j].running and r.random() < 0.12:
				if not cmd(j, "POWERON"):
					return
		x = r.random()
		if x < 0.12:
			i = r.randrange(n)
			muted_any = any(m.muted for m in bench.models)
			if not (overlap_free and muted_any):
				amount = r.choice((0, 1, 2, 3, 5, 10, 50, 255, 256, 300)) if r.random() < .8 else r.randint(0, 50)
				if r.random() < 0.5:
					c = "FAKE_DROP %d" % amount
				else:
					c = "FAKE_DROP %d %d" % (amount, r.choice((1, 2, 3, 4, 13, 26, 51, 60)))
				if not cmd(i, c):
					return
		elif x < 0.16:
			# must be rejected without changing state
			i = r.randrange(n)
			c = r.choice(("FAKE_DROP -1", "FAKE_DROP -5 3", "FAKE_DROP 3 0", "FAKE_DROP 3 -2", "FAKE_DROP -1 -1", "FAKE_DROP 0 0"))
			if not cmd(i, c):
				return
			ctx.count("rejected_commands")
		elif x < 0.22:
			i = r.randrange(n)
			pending = any(bd.hi > 0 for bd in bench.budgets)
			v = r.choice((0, 1, 1))
			if not (overlap_free and pending and v == 1):
				if not cmd(i, "RFMUTE %d" % v):
					return
		elif x < 0.25:
			if not cmd(r.randrange(n), "SETFORMAT %d" % r.choice((0, 1, 0, 1, 2, 5, 15))):
				return
		elif x < 0.28:
			# a transceiver that is powered off (still tuned) receives nothing: bursts sent meanwhile neither reach its L1
			# nor use up its drop budget
			i = r.randrange(n)
			if not cmd(i, "POWEROFF" if bench.models[i].running else "POWERON"):
				return
			ctx.count("power_commands_between_bursts")
		# one burst
		s = r.randrange(n)
		if r.random() < 0.04:
			# a message without burst bits from the L1 (header only; the parser accepts it) is not a burst: whatever the
			# recipients make of it, it must not use up a unit of a pending drop budget - the bursts after it show that
			bench.transmit(s, {"dir": "tx", "ver": bench.models[s].ver, "fn": fn if r.random() < 0.5 else 0, "tn": r.randrange(8),
				"pwr": 0, "bits": b""})
			log.append("%s: header-only message" % specs[s]["name"])
			ctx.count("header_only_messages_between_bursts")
		if fn_mode in (0, 3):
			fn = (fn + 1) % trxd.HYPERFRAME
		elif fn_mode == 1:
			fn = (fn + r.choice((0, 0, 1, 2, 13, 26, 51, -1, -7))) % trxd.HYPERFRAME if r.random() > 0.03 else 0
		else:
			fn = r.randrange(trxd.HYPERFRAME)
		bits = trxd.rand_bits(r, r.choice((148, 148, 148, 444)))
		m = {"dir": "tx", "ver": bench.models[s].ver, "fn": fn, "tn": r.randrange(8),
		     "pwr": r.choice((0, 3, 10)), "bits": bits}
		rcpt = bench.recipients(s, fn)
		acc, got = bench.transmit(s, m)
		ctx.count("bursts")
		if not bench.models[s].running:
			if acc or any(got.values()):
				ctx.violation("transmit", {"history": log[-15:], "burst": trxd.brief(m)},
					what = "burst handed to a transceiver that is powered off: %s" % ("accepted" if acc else "datagrams sent to an L1"))
				return
			ctx.count("bursts_to_an_idle_sender")
			continue
		if not acc:
			ctx.violation("transmit", {"history": log[-15:], "burst": trxd.brief(m)},
				what = "valid burst not accepted by the sender")
			return
		for j in range(n):
			if j not in rcpt:
				if got[j]:
					ctx.violation("routing", {"history": log[-15:], "recipient": specs[j]["name"]},
						what = "datagram delivered to a transceiver that must not receive it")
				continue
			bd = bench.budgets[j]
			before = (bd.lo, bd.hi, bd.period)
			e = radio.expected(bench.models[s], bench.models[j], bd, m, bits)
			res = radio.check(e, got[j], bd)
			ctx.count("outcomes_checked")
			ctx.count("expected:%s%s" % (e["kind"], (":" + e["cause"]) if "cause" in e else ""))
			if e.get("ambiguous_budget"):
				ctx.count("ambiguous_budget_bursts")
			ctx.seen(hash((ctx.shard[0], idx, b, j)))
			if isinstance(res, str):
				ctx.violation("outcome", {"history": log[-20:], "burst": trxd.brief(m), "sender": specs[s]["name"],
					"recipient": specs[j]["name"], "budget_before": before,
					"recipient_version": bench.models[j].ver,
					"mute": [mm.muted for mm in bench.models],
					"datagrams": [d[:12].hex() for d in got[j]]}, what = res)
				return
	if idx < 3:
		ctx.sample("stream", {"history_tail": log[-12:], "bursts": nb})


# ---- a FAKE_DROP command served while the clock thread is delivering a burst ------------------------

def all_functions(cls):
	import types
	# (not __del__: a finaliser runs wherever the garbage collector happens to, also inside the harness's own critical sections)
	return [k for k, v in vars(cls).items() if isinstance(v, types.FunctionType) and k != "__del__"]


def make_sched(ctx, gran = "line"):
	sc = sched.Sched(gran)
	for cls in (sim.fake_trx.FakeTRX, sim.transceiver.Transceiver, sim.burst_fwd.BurstForwarder):
		for name in all_functions(cls):
			sc.watch(cls, name)
	sc.watch(sim.transceiver.CTRLInterfaceTRX, "parse_cmd")
	return sc


def race_case(ctx, sc, cfg, start, switches):
	""" One burst is delivered by the clock thread (a drop budget is pending at the recipient) while the socket
	    thread serves a new FAKE_DROP for the same recipient.  Whatever the interleaving, the outcome must be that
	    of one of the two orders: (burst, command) or (command, burst). -> (error or None, info) """
	import _thread
	old, new, period, vers = cfg
	bench = radio.Bench(12345, [{"base_port": 5700, "name": "A"}, {"base_port": 6700, "name": "B"}])
	for i, (rx, tx) in enumerate(((890000, 935000), (935000, 890000))):
		for c in ("RXTUNE %d" % rx, "TXTUNE %d" % tx, "SETFORMAT %d" % vers[i], "POWERON"):
			bench.cmd(i, c)
	for nd in bench.nodes:
		for k, v in list(vars(nd.trx).items()):
			if isinstance(v, (_thread.LockType, _thread.RLock)):
				setattr(nd.trx, k, sched.BatonLock(sc))
	bench.cmd(1, "FAKE_DROP %d" % old)
	T = 2000
	bits = trxd.rand_bits(__import__("random").Random(7), 148)

	def burst(fn):
		return {"dir": "tx", "ver": bench.models[0].ver, "fn": fn, "tn": 3, "pwr": 0, "bits": bits}

	def outcome(dgs):
		# -> "dropped" / "delivered" / error text
		if bench.models[1].ver == 0:
			return "dropped" if not dgs else "delivered" if len(dgs) == 1 else "%d datagrams for one burst" % len(dgs)
		if len(dgs) != 1:
			return "%d datagrams for one burst on a version-1 link" % len(dgs)
		try:
			m = trxd.decode(dgs[0], "rx")
		except Exception as e:
			return "undecodable datagram: %s" % e
		return "dropped" if m.get("nope") else "delivered"

	for nd in bench.nodes:
		nd.rx_data()
	if bench.nodes[0].data_raw(trxd.encode(burst(T))) is None:
		return "valid burst not accepted", None
	text = "FAKE_DROP %d" % new if period is None else "FAKE_DROP %d %d" % (new, period)
	bench.nodes[1].l1_ctrl.sendto(("CMD %s\0" % text).encode(), bench.nodes[1].ctrl_port)
	info = sc.run(lambda: bench.nodes[1].trx.ctrl_if.handle_rx(), lambda: bench.tick(T), start, switches, timeout = 60.0)
	if info["hung"]:
		return "deadlock", info
	for i, e in enumerate(info["errors"]):
		if e is not None:
			return "%s thread raised %s: %s" % (("socket", "clock")[i], type(e).__name__, e), info
	rsp = [trxc_status(d) for d, _ in bench.nodes[1].l1_ctrl.take_all()]
	if rsp != [0]:
		return "the racing FAKE_DROP was answered %r (expected one reply with status 0)" % rsp, info
	racing = outcome(bench.nodes[1].rx_data())
	if racing not in ("dropped", "delivered"):
		return racing, info
	later = 0
	K = 9
	p = period or 1
	for k in range(1, K + 1):
		fn = T + k * p          # every later burst passes the frame-number filter
		if bench.nodes[0].data_raw(trxd.encode(burst(fn))) is None:
			return "valid burst not accepted", info
		bench.tick(fn)
		o = outcome(bench.nodes[1].rx_data())
		if o not in ("dropped", "delivered"):
			return o, info
		later += o == "dropped"
	passes_new = T % p == 0
	serial = {
		# burst first (old budget, period 1), then the command
		("dropped" if old > 0 else "delivered", min(new, K)),
		# command first, then the burst under the new budget and period
		("dropped", min(new - 1, K)) if (new > 0 and passes_new) else ("delivered", min(new, K)),
	}
	if (racing, later) not in serial:
		return ("burst racing the command was %s and %d of the following %d bursts were dropped; the two possible orders give %s"
			% (racing, later, K, " or ".join("%s/%d" % x for x in sorted(serial)))), info
	return None, info


def trxc_status(d):
	from vf.ref import trxc
	r = trxc.parse_response(d)
	return None if r is None else r[1]


def racing_commands(ctx, r, gran = "line"):
	sc = make_sched(ctx, gran)
	sc.install()
	distinct = set()
	try:
		cfgs = [(old, new, period, vers) for old in (1, 3) for new in (0, 5) for period in (None, 1, 4)
			for vers in ((1, 1), (0, 0), (0, 1))]
		r.shuffle(cfgs)
		if ctx.tier == "quick":
			# every (pending, new) pair with two of the nine (period, versions) combinations
			pick = []
			for pair in ((1, 0), (1, 5), (3, 0), (3, 5)):
				pick += [c for c in cfgs if (c[0], c[1]) == pair][:2]
			cfgs = pick
		for cfg in cfgs:
			err, info = race_case(ctx, sc, cfg, 0, [])
			if err:
				ctx.violation("racing-command", {"config": cfg, "switches": []}, what = err)
				return
			n = info["points"]
			ctx.count("race_decision_points:" + gran, n)
			if n < 5:
				ctx.inconclusive_because("scheduler saw only %d decision points" % n)
				return
			plans = [(st, [p1]) for st in (0, 1) for p1 in range(1, n + 2)]
			for _ in range(ctx.scale(40, 600)):
				plans.append((r.randrange(2), sorted(r.sample(range(1, n + 3), r.choice((2, 2, 3, 4))))))
			for (st, sw) in plans:
				err, info = race_case(ctx, sc, cfg, st, sw)
				if err == "deadlock":
					err, info = race_case(ctx, sc, cfg, st, sw)
				if err == "deadlock":
					# a wall-clock watchdog fired twice: not a verdict on the property
					ctx.inconclusive_because("controlled run hung twice (schedule %r of %r)" % ((st, sw), cfg))
					return
				ctx.count("race_schedules_run")
				key = (gran, cfg, st, tuple(info["trace"]) if info else None)
				distinct.add(key)
				ctx.seen(hash(key))
				if err:
					ctx.violation("racing-command", {"config": {"pending": cfg[0], "new": cfg[1], "period": cfg[2], "versions": cfg[3]},
						"granularity": gran, "start_thread": ("socket", "clock")[st], "switches": sw, "executed_switches": info["trace"] if info else None},
						what = "FAKE_DROP served while a burst is being delivered: " + err)
					return
				if ctx.time_left() < 0:
					return
	finally:
		sc.uninstall()
		ctx.count("race_distinct_schedules", len(distinct))


def run(ctx):
	ctx.rule = ("streams of 50-400 bursts (consecutive, jittering and arbitrary frame numbers) through real FakeTRX pairs/triples in all "
		"version combinations with FAKE_DROP n [period] (n 0..50, period 1..60), rejected FAKE_DROP forms, RFMUTE and SETFORMAT between "
		"bursts; each (burst, recipient) outcome compared with the counter model; a FAKE_DROP served by the socket thread while the "
		"clock thread delivers a burst, under a baton scheduler at line granularity and at CPython's own switch points (every single preemption point, random multi-switch "
		"schedules): the outcome must be that of one of the two orders; distinct = distinct (stream, burst, recipient) and executed "
		"switch traces; all non-trivial")
	ctx.assume("where RF mute and a pending drop budget overlap, both budget outcomes are accepted (the statement is silent)")
	r = ctx.rng("c18")
	for i in range(ctx.scale(400, 60000)):
		with common.case_watchdog(ctx, "stream", {"case": i}, first = 60, second = 60):
			run_stream(ctx, ctx.case_rng("stream", i), i)
		ctx.count("streams")
		if ctx.too_many() or ctx.time_left() < 0:
			break
	ctx.current_case = None
	import os
	for gran in os.environ.get("VERIF_GRAN", "line,switch").split(","):
		racing_commands(ctx, r, gran)
	ctx.require("race_schedules_run", 200)
	ctx.require("outcomes_checked", 5000)
	ctx.require("expected:nope:drop", 200)
	ctx.require("expected:none:drop", 200)
	ctx.require("expected:nope:mute", 50)
	ctx.require("expected:none:mute", 50)
	ctx.require("expected:burst", 2000)
	ctx.require("rejected_commands", 50)


def replay(ctx, data):
	if common.replay_case(ctx, data, {"stream": run_stream}):
		return
	ctx.rule = "replay: no case coordinates in the witness; rerunning the check with the recorded seed"
	ctx.seed = data.get("seed", 0)
	run(ctx)

# C08 - Firmware TDMA scheduler runs each item exactly in its scheduled frame.
#
# Real tdma_sched.c (ASan+UBSan incl. bounds) driven by op scripts; the run log
# is checked against a frame model.  Every scheduled item carries a unique id
# in (p1, p2, p3), so each callback line names the schedule call it came from.

import os
from collections import defaultdict

from vf import common, cbuild

SHARDS = {"quick": 1, "thorough": 16}
DEPTH = 25
CAP = 8


class Entry:
	__slots__ = ("id", "prio", "optional", "chain", "seq")

	def __init__(self, id_, prio, chain = None):
		self.id = id_          # (p1, p2, p3)
		self.prio = prio
		self.optional = False
		self.chain = chain     # (foff, fprio, fid) or None


class Model:
	""" frame -> entries; 'now' counts advances since the start of the case. """

	def __init__(self):
		self.now = 0
		self.frames = defaultdict(list)
		self.pairs = set()     # (ring position, offset) exercised
		self.max_fill = 0
		self.events = []       # one-shot GSM-time events: (fn, p3, toks), in list order
		self.fn0 = 0           # GSM frame number of model frame 0

	def gsmtime_add(self, fn, p3, toks):
		""" -> expected rc: 0, or 'busy' when all 16 event slots are taken """
		if len(self.events) >= 16:
			return "busy"
		k = len(self.events)
		for i, ev in enumerate(self.events):
			if ev[0] > fn:
				k = i
				break
		self.events.insert(k, (fn, p3, toks))
		return 0

	def gsmtime_execute(self, cur):
		""" -> number of events fired; their sets start one frame after the current one """
		fire = [ev for ev in self.events if ev[0] == cur + 2]
		self.events = [ev for ev in self.events if ev[0] != cur + 2]
		for (fn, p3, toks) in fire:
			self.schedule_set(1, p3, toks)
		return len(fire)

	def fill(self, frame):
		return len(self.frames[frame])

	def has_optional(self, frame):
		return any(e.optional for e in self.frames[frame])

	def schedule(self, off, entry):
		""" -> expected rc (0 / -1) or None when the model cannot know """
		t = self.now + off
		self.pairs.add((self.now % DEPTH, off))
		if self.has_optional(t):
			entry.optional = True
			self.frames[t].append(entry)
			return None
		if self.fill(t) >= CAP:
			return -1
		self.frames[t].append(entry)
		self.max_fill = max(self.max_fill, self.fill(t))
		return 0

	def schedule_set(self, off, p3, toks):
		""" toks: list of 'f' or (prio, p1, p2) -> expected rc """
		added = []
		frame_off = off
		seps = 0
		# a set that touches a frame whose content is not known exactly: nothing can be predicted
		fo = off
		for tk in toks:
			if tk == "f":
				fo += 1
			elif self.has_optional(self.now + fo):
				fo = off
				for tk2 in toks:
					if tk2 == "f":
						fo += 1
						continue
					e = Entry((tk2[1], tk2[2], p3), tk2[0])
					e.optional = True
					self.frames[self.now + fo].append(e)
				return None
		for tk in toks:
			if tk == "f":
				frame_off += 1
				seps += 1
				continue
			t = self.now + frame_off
			self.pairs.add((self.now % DEPTH, frame_off))
			if self.fill(t) >= CAP:
				# error reported; what was placed before the overflow may stay
				for e in added:
					e.optional = True
				return -1
			e = Entry((tk[1], tk[2], p3), tk[0])
			self.frames[t].append(e)
			added.append(e)
			self.max_fill = max(self.max_fill, self.fill(t))
		return seps

	def reset(self):
		for f in list(self.frames):
			if f != self.now:
				del self.frames[f]
		for e in self.frames[self.now]:
			e.optional = True

	def advance(self):
		self.now += 1


def check_case(ctx, idx, ops, lines):
	""" Re-run the model over the ops, consuming the driver's output lines.
	    Returns a violation description or None. """
	m = Model()
	pos = 0
	stray = [l for l in lines if l.startswith("CORRUPT ")]
	if stray:
		return 0, "the scheduler wrote outside its own state (offset %s relative to l1s.tdma_sched)" % stray[0].split()[1]
	lines = [l for l in lines if not l.startswith("CORRUPT ")]

	def take():
		nonlocal pos
		if pos >= len(lines):
			return None
		pos += 1
		return lines[pos - 1]

	for k, op in enumerate(ops):
		kind = op[0]
		if kind in ("S", "C"):
			_, off, prio, id_, chain = op
			exp = m.schedule(off, Entry(id_, prio, chain))
			l = take()
			if l is None or not l.startswith("r S "):
				return (k, "no result line for schedule (got %r)" % l)
			rc = int(l[4:])
			ctx.count("schedule_calls")
			if exp == -1:
				ctx.count("overflow_attempts")
			if exp is not None and rc != exp:
				return (k, "tdma_schedule returned %d, expected %d (frame holds %d items)"
					% (rc, exp, m.fill(m.now + off)))
		elif kind == "T":
			_, off, p3, toks = op
			exp = m.schedule_set(off, p3, toks)
			l = take()
			if l is None or not l.startswith("r T "):
				return (k, "no result line for schedule_set (got %r)" % l)
			rc = int(l[4:])
			ctx.count("schedule_set_calls")
			if exp == -1:
				ctx.count("overflow_attempts")
			if exp is not None and rc != exp:
				return (k, "tdma_schedule_set returned %d, expected %d" % (rc, exp))
		elif kind == "G":
			_, fn, p3, toks = op
			exp = m.gsmtime_add(fn, p3, toks)
			l = take()
			if l is None or not l.startswith("r G "):
				return (k, "no result line for sched_gsmtime (got %r)" % l)
			rc = int(l[4:])
			ctx.count("gsmtime_events")
			if exp == "busy":
				ctx.count("gsmtime_busy")
				if rc >= 0:
					return (k, "sched_gsmtime returned %d with all 16 event slots taken" % rc)
			elif rc != 0:
				return (k, "sched_gsmtime returned %d, expected 0" % rc)
		elif kind == "E":
			_, fn = op
			exp = m.gsmtime_execute(fn)
			l = take()
			if l is None or not l.startswith("r E "):
				return (k, "no result line for sched_gsmtime_execute (got %r)" % l)
			rc = int(l[4:])
			if exp:
				ctx.count("gsmtime_fired", exp)
			if rc != exp:
				return (k, "sched_gsmtime_execute(%d) fired %d events, %d are due two frames ahead" % (fn, rc, exp))
		elif kind == "A":
			if m.frames.get(m.now):
				raise common.HarnessError("generator advanced over a non-empty frame")
			m.frames.pop(m.now, None)
			m.advance()
			ctx.count("advances")
		elif kind == "R":
			m.reset()
			ctx.count("resets")
		elif kind == "X":
			present = list(m.frames[m.now])
			by_id = {e.id: e for e in present}
			ran = []
			appended = {}      # follow-ups into the current frame
			base_fill = len(present)
			ambiguous = m.has_optional(m.now)
			last_prio = None
			n_cb = 0
			while True:
				l = take()
				if l is None:
					return (k, "driver output ends inside execute")
				if l.startswith("r X "):
					rc = int(l[4:])
					break
				if l.startswith("n "):
					return (k, "unexpected nested-schedule line %r" % l)
				if not l.startswith("c "):
					return (k, "unexpected line %r" % l)
				p1, p2, p3 = (int(x) for x in l[2:].split())
				id_ = (p1, p2, p3)
				n_cb += 1
				ctx.count("callbacks")
				if id_ in by_id:
					e = by_id[id_]
					if e in ran:
						return (k, "item %s executed twice in frame %d" % (id_, m.now))
					ran.append(e)
					if last_prio is not None and e.prio < last_prio:
						return (k, "priority order violated in frame %d: prio %d ran after %d"
							% (m.now, e.prio, last_prio))
					last_prio = e.prio
				elif id_ in appended:
					e = appended[id_]
					if e.seq:
						return (k, "follow-up %s executed twice" % (id_,))
					e.seq = 1
				else:
					where = [f for f, es in m.frames.items() if any(x.id == id_ for x in es)]
					return (k, "callback %s ran in frame %d but is not scheduled for it%s"
						% (id_, m.now, (" (scheduled for frame %d)" % where[0]) if where else
						   " (not scheduled / already executed / cleared by reset)"))
				if e.chain is not None:
					foff, fprio, fid = e.chain
					l2 = take()
					if l2 is None or not l2.startswith("n "):
						return (k, "chain callback did not report its nested schedule")
					nrc = int(l2[2:])
					fe = Entry(fid, fprio)
					fe.seq = 0
					ctx.count("nested_schedules")
					if foff == 0:
						m.pairs.add((m.now % DEPTH, 0))
						cur = base_fill + len(appended)
						if ambiguous:
							if nrc == 0:
								fe.optional = True
								appended[fid] = fe
						elif cur >= CAP:
							ctx.count("overflow_attempts")
							if nrc != -1:
								return (k, "nested tdma_schedule into a full frame returned %d" % nrc)
						else:
							if nrc != 0:
								return (k, "nested tdma_schedule returned %d, expected 0" % nrc)
							appended[fid] = fe
					else:
						exp = m.schedule(foff, fe)
						if exp == -1:
							ctx.count("overflow_attempts")
						if exp is not None and nrc != exp:
							return (k, "nested tdma_schedule returned %d, expected %d" % (nrc, exp))
			for e in present:
				if not e.optional and e not in ran:
					return (k, "item %s scheduled for frame %d did not run in it" % (e.id, m.now))
			for fid, fe in appended.items():
				if not fe.optional and not fe.seq:
					return (k, "same-frame follow-up %s did not run" % (fid,))
			if rc != n_cb:
				return (k, "tdma_sched_execute returned %d but ran %d callbacks" % (rc, n_cb))
			m.frames[m.now] = []
			ctx.count("executes")
			if n_cb:
				ctx.count("executes_nonempty")
		else:
			raise common.HarnessError("unknown op %r" % (op,))
	if pos != len(lines):
		return (len(ops), "driver printed %d extra lines: %r" % (len(lines) - pos, lines[pos:pos + 3]))
	left = [(f, e.id) for f, es in m.frames.items() for e in es if not e.optional] + [("event", ev[0]) for ev in m.events]
	if left:
		raise common.HarnessError("case ends with scheduled items never flushed: %r" % left[:3])
	ctx.extra.setdefault("_pairs", set()).update(m.pairs)
	ctx.extra["max_bucket_fill"] = max(ctx.extra.get("max_bucket_fill", 0), m.max_fill)
	return None


class Gen:
	def __init__(self, r):
		self.r = r
		self.m = Model()
		self.ops = []
		self.next_p3 = r.randrange(0, 60000)
		self.used = set()
		self.gsmtime = False
		self.fn0 = 0

	def new_id(self, p3 = None):
		r = self.r
		if p3 is None:
			self.next_p3 = (self.next_p3 + 1) & 0xffff
			p3 = self.next_p3
		while True:
			id_ = (r.randrange(256), r.randrange(256), p3)
			if id_ not in self.used:
				self.used.add(id_)
				return id_

	def prio(self):
		r = self.r
		k = r.random()
		if k < 0.3:
			return r.choice((-32768, -1, 0, 1, 5, 32767))
		if k < 0.6:
			return r.randint(-3, 3)
		return r.randint(-32768, 32767)

	def free_offsets(self, lo = 0):
		m = self.m
		return [o for o in range(lo, DEPTH) if not m.has_optional(m.now + o)]

	def op_sched(self, off = None, chain_ok = True):
		r, m = self.r, self.m
		offs = self.free_offsets()
		if not offs:
			return
		if off is None:
			off = r.choice(offs)
		elif off not in offs:
			return
		chain = None
		if chain_ok and r.random() < 0.2:
			# a callback that schedules a follow-up item when it runs
			foff = r.choice((0, 1, 1, 2, 3, 24, r.randrange(1, 25)))
			chain = (foff, self.prio(), self.new_id())
		id_ = self.new_id()
		e = Entry(id_, self.prio(), chain)
		self.ops.append(("C" if chain else "S", off, e.prio, id_, chain))
		m.schedule(off, e)

	def op_set(self):
		r, m = self.r, self.m
		nfr = r.randint(1, 6)
		lo = [o for o in range(0, DEPTH - nfr + 1)
			if all(not m.has_optional(m.now + o + j) for j in range(nfr))]
		if not lo:
			return
		off = r.choice(lo)
		p3 = self.new_id()[2]
		toks = []
		for j in range(nfr):
			for _ in range(r.randint(0, 4)):
				id_ = self.new_id(p3)
				toks.append((self.prio(), id_[0], id_[1]))
			if j < nfr - 1 or r.random() < 0.3:
				toks.append("f")
		self.ops.append(("T", off, p3, toks))
		m.schedule_set(off, p3, toks)

	def op_exec(self):
		self.ops.append(("X",))
		m = self.m
		# follow the model: chain items place follow-ups while executing
		for e in list(m.frames[m.now]):
			if e.chain is not None:
				foff, fprio, fid = e.chain
				if foff > 0:
					m.schedule(foff, Entry(fid, fprio))
		m.frames[m.now] = []

	def op_gsmtime(self):
		""" a one-shot set at an absolute GSM time (must be at least two frames ahead) """
		r, m = self.r, self.m
		cur = self.fn0 + m.now
		fn = cur + r.choice((2, 2, 3, 4, 10, 24, 25, 26, 40))
		p3 = self.new_id()[2]
		toks = []
		nfr = r.randint(1, 3)
		for j in range(nfr):
			for _ in range(r.randint(0 if j else 1, 3)):
				id_ = self.new_id(p3)
				toks.append((self.prio(), id_[0], id_[1]))
			if j < nfr - 1:
				toks.append("f")
		self.ops.append(("G", fn, p3, toks))
		m.gsmtime_add(fn, p3, toks)

	def op_advance(self):
		if self.m.frames.get(self.m.now):
			self.op_exec()
		if self.gsmtime:
			# the firmware's frame interrupt: execute, then the one-shot events, then advance
			cur = self.fn0 + self.m.now
			self.ops.append(("E", cur))
			self.m.gsmtime_execute(cur)
		self.ops.append(("A",))
		self.m.frames.pop(self.m.now, None)
		self.m.advance()

	def build(self, nops):
		r = self.r
		# reach an arbitrary ring position first
		for _ in range(r.randrange(DEPTH)):
			self.op_advance()
		mode = r.random()
		self.gsmtime = r.random() < 0.3
		self.fn0 = r.choice((0, 1000, 2715648 - 3000, r.randrange(2715648 - 3000)))
		for _ in range(nops):
			k = r.random()
			if self.gsmtime and k < 0.15:
				self.op_gsmtime()
				continue
			if mode < 0.15 and k < 0.5:
				# fill one bucket to 7 / 8 / 9+ items
				offs = self.free_offsets()
				if offs:
					off = r.choice(offs)
					for _ in range(r.choice((7, 8, 9, 10)) - self.m.fill(self.m.now + off)):
						self.op_sched(off, chain_ok = False)
			elif k < 0.40:
				self.op_sched()
			elif k < 0.52:
				self.op_set()
			elif k < 0.70:
				self.op_exec()
				if r.random() < 0.2:
					self.op_exec()   # executing twice: the frame must be empty
			elif k < 0.97:
				self.op_advance()
			else:
				self.ops.append(("R",))
				self.m.reset()
				if r.random() < 0.8:
					self.op_exec()
		# flush: every scheduled item must have had its frame
		for k in range(8 * DEPTH):
			self.op_exec()
			self.op_advance()
			if k >= DEPTH and not any(self.m.frames.values()) and not self.m.events:
				break
		return self.ops


def render(idx, ops):
	out = ["N %d" % idx]
	for op in ops:
		k = op[0]
		if k == "S":
			_, off, prio, id_, _c = op
			out.append("S %d %d %d %d %d" % (off, prio, id_[0], id_[1], id_[2]))
		elif k == "C":
			_, off, prio, id_, (foff, fprio, fid) = op
			out.append("C %d %d %d %d %d %d %d %d %d %d" % (off, prio, id_[0], id_[1], id_[2],
				foff, fprio, fid[0], fid[1], fid[2]))
		elif k == "T":
			_, off, p3, toks = op
			out.append("T %d %d %s" % (off, p3, " ".join("f" if t == "f" else "i:%d:%d:%d" % t for t in toks)))
		elif k == "G":
			_, fn, p3, toks = op
			out.append("G %d %d %s" % (fn, p3, " ".join("f" if t == "f" else "i:%d:%d:%d" % t for t in toks)))
		elif k == "E":
			out.append("E %d" % op[1])
		else:
			out.append(k)
	return ("\n".join(out) + "\n").encode()


def build(tag = "c08"):
	bd = cbuild.BuildDir(tag)
	binary = cbuild.compile_link(bd, "tdma_drv",
		[os.path.join(cbuild.CDIR, "drivers/tdma_drv.c"),
		 os.path.join(cbuild.FW, "layer1/tdma_sched.c"),
		 os.path.join(cbuild.FW, "layer1/sched_gsmtime.c")],
		includes = cbuild.firmware_includes(bd),
		cflags = cbuild.GC[0] + ["-fsanitize=bounds"], ldflags = cbuild.GC[1])
	return bd, binary


def judge(ctx, binary, cases, sub):
	scripts = [render(i, ops) for i, ops in enumerate(cases)]
	outputs, crashes = cbuild.run_cases(binary, scripts)
	crashed = {c[0]: c for c in crashes}
	for i, ops in enumerate(cases):
		ctx.seen(common.h64(scripts[i]))
		if i in crashed:
			_, rc, err, rep = crashed[i]
			ctx.violation(sub, {"ops": ops_json(ops), "stderr": err[-1500:]},
				what = "driver died in this case (rc=%s): %s" % (rc, rep or "no sanitizer report"))
			continue
		if outputs[i] is None:
			ctx.inconclusive_because("case %d never ran" % i)
			continue
		# the firmware's own diagnostics (puts/printf) are not driver events
		lines = [l for l in outputs[i] if l[:2] in ("c ", "r ", "n ") or l.startswith("CORRUPT ")]
		res = check_case(ctx, i, ops, lines)
		ctx.count("cases")
		if res is not None:
			k, what = res
			ctx.violation(sub, {"ops": ops_json(ops), "failing_op_index": k, "output": outputs[i][-40:]},
				what = what)
		if ctx.too_many():
			break


def ops_json(ops):
	return [list(o) for o in ops]


def ops_unjson(lst):
	out = []
	for o in lst:
		k = o[0]
		if k in ("S", "C"):
			chain = o[4]
			if chain is not None:
				chain = (chain[0], chain[1], tuple(chain[2]))
			out.append((k, o[1], o[2], tuple(o[3]), chain))
		elif k in ("T", "G"):
			out.append((k, o[1], o[2], ["f" if t == "f" else tuple(t) for t in o[3]]))
		elif k == "E":
			out.append((k, o[1]))
		else:
			out.append((k,))
	return out


def run(ctx):
	ctx.rule = ("random op scripts (schedule, chained schedule from inside a callback, schedule_set of up to 6 frames x 4 "
		"items, execute, advance, reset, and in 30% of the scripts one-shot sets at absolute GSM times through sched_gsmtime / "
		"sched_gsmtime_execute called once per frame like the firmware's frame interrupt; buckets filled to 7/8/9+ items; arbitrary starting ring position; priorities "
		"over int16 with ties) ending with a 26-frame flush; distinct = distinct scripts by hash; all non-trivial "
		"(every script schedules and executes items)")
	ctx.assume("callbacks report success; every non-empty frame is executed before the scheduler advances past it (as the firmware does)")
	ctx.assume("after tdma_sched_reset the items of the current frame may or may not run (source comment); after an overflowing set call the items placed before the overflow may or may not run")
	bd, binary = build("c08")
	try:
		r = ctx.rng("c08")
		total = ctx.scale(4000, 480000)
		batch = 2000
		done = 0
		while done < total and not ctx.too_many() and ctx.time_left() > 0:
			cases = [Gen(r).build(r.randint(20, 120)) for _ in range(min(batch, total - done))]
			if done == 0:
				ctx.sample("script", render(0, cases[0]).decode().split("\n")[:40])
			judge(ctx, binary, cases, "script")
			done += len(cases)
	finally:
		bd.remove()
	pairs = ctx.extra.pop("_pairs", set())
	ctx.extra["max_ring_position_offset_pairs"] = len(pairs)
	ctx.count("pairs_exercised", len(pairs))
	ctx.require("cases", 100)
	ctx.require("callbacks", 1000)
	ctx.require("overflow_attempts", 10)
	ctx.require("nested_schedules", 10)
	ctx.require("resets", 5)
	ctx.require("pairs_exercised", 625)
	ctx.require("gsmtime_fired", 100)


def replay(ctx, data):
	ctx.rule = "replay of one recorded op script"
	ops = ops_unjson(data["witness"]["ops"])
	bd, binary = build("c08r")
	try:
		judge(ctx, binary, [ops], data["sub"])
		ctx.seen(1)
	finally:
		bd.remove()

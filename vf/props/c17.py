# C17 - TRXD PDU definitions (v0, v1, v2) have the documented structure.
#
# Layout and round-trip monitor on the real declarative PDU definitions
# (trxd_proto.py on codec.py) against the independent layout codec of
# vf/ref/trxd.py, cross-checked with the datagrams of the message codec.

from vf import common, msgs
from vf.ref import trxd

common.use_toolkit()
import codec        # noqa: E402
import trxd_proto   # noqa: E402

SHARDS = {"quick": 1, "thorough": 16}

CLASSES = {"v0rx": "PDUv0Rx", "v0tx": "PDUv0Tx", "v1rx": "PDUv1Rx", "v1tx": "PDUv1Tx", "v2rx": "PDUv2Rx", "v2tx": "PDUv2Tx"}
VER = {"v0rx": 0, "v0tx": 0, "v1rx": 1, "v1tx": 1, "v2rx": 2, "v2tx": 2}


MK = [0]
POOL = {}


def mk(kind):
	""" A fresh instance of the PDU class.  Now and then another instance of some class is created
	    with check_len=False just before: the classes share field objects, and what one instance's
	    constructor does must not change how another instance behaves. """
	MK[0] += 1
	if MK[0] % 7 == 0:
		other = list(CLASSES.values())[(MK[0] // 7) % len(CLASSES)]
		getattr(trxd_proto, other)(check_len = False)
	if MK[0] % 3 == 0:
		# a long-lived instance, created before whatever other instances came and went
		if kind not in POOL:
			POOL[kind] = getattr(trxd_proto, CLASSES[kind])()
		return POOL[kind]
	return getattr(trxd_proto, CLASSES[kind])()


def same(ref, got):
	""" every value of the reference dict present and equal in the decoded dict """
	bad = []
	for k, v in ref.items():
		if k == "bpdu":
			g = got.get("bpdu", [])
			if len(g) != len(v):
				bad.append("bpdu count %d != %d" % (len(g), len(v)))
				continue
			for i, (a, b) in enumerate(zip(v, g)):
				bad += ["bpdu[%d].%s" % (i, x) for x in same(a, b)]
				for bk in ("soft-bits", "hard-bits"):
					if bk in b and bk not in a:
						bad.append("bpdu[%d] carries %s although it is a NOPE sub-PDU" % (i, bk))
			continue
		if k == "pad":
			if bytes(got.get("pad", b"")) != bytes(v):
				bad.append("pad")
			continue
		if k not in got:
			bad.append("%s missing" % k)
		elif (bytes(got[k]) if isinstance(v, (bytes, bytearray)) else got[k]) != v:
			bad.append(k)
	return bad


def set_vals(pdu, kind, v):
	pdu.c.clear()
	for k, x in v.items():
		pdu[k] = x
	if "pad" not in v and kind == "v0rx":
		pdu["pad"] = b""


def brief(v):
	o = {}
	for k, x in v.items():
		if isinstance(x, (bytes, bytearray)):
			o[k] = "%d octets" % len(x)
		elif k == "bpdu":
			o[k] = [brief(p) for p in x]
		else:
			o[k] = x
	return o


def check_pdu(ctx, r, kind, v, sub = "pdu"):
	w = {"class": CLASSES[kind], "values": brief(v)}
	want = trxd.pdu_encode(kind, v)
	ctx.seen(hash((kind, want)))
	ctx.count("pdus:%s" % kind)
	pdu = mk(kind)
	try:
		set_vals(pdu, kind, v)
	except AttributeError as e:
		ctx.violation(sub, w, what = "%s cannot be given its field values: %s (the definition is not a complete codec envelope)" % (CLASSES[kind], e))
		return
	try:
		enc = pdu.to_bytes()
	except Exception as e:
		ctx.violation(sub, w, what = "%s.to_bytes() fails on in-range values: %s" % (CLASSES[kind], type(e).__name__))
		return
	if bytes(enc) != want:
		n = next((i for i in range(min(len(enc), len(want))) if enc[i] != want[i]), min(len(enc), len(want)))
		ctx.violation(sub, dict(w, got = bytes(enc)[:24].hex(), expected = want[:24].hex(), first_difference_at_octet = n,
			lengths = [len(enc), len(want)]), what = "%s encodes to other octets than the documented layout" % CLASSES[kind])
		return
	dec = mk(kind)
	try:
		used = dec.from_bytes(want)
	except Exception as e:
		ctx.violation(sub, w, what = "%s.from_bytes() rejects its own encoding: %s" % (CLASSES[kind], type(e).__name__))
		return
	bad = same(v, dec.c)
	if used != len(want) or bad:
		ctx.violation(sub, dict(w, consumed = used, length = len(want), differing = bad[:8]),
			what = "%s does not decode what it encodes (%s)" % (CLASSES[kind], ", ".join(bad[:4]) or "consumed length"))
		return
	if dec.c.get("ver", VER[kind]) != VER[kind]:
		ctx.violation(sub, w, what = "decoded version field differs")
		return
	ctx.count("roundtrips")
	# a receiver decodes out of a buffer it then re-uses for the next datagram: what was decoded must not change with it
	buf = bytearray(want)
	d3 = mk(kind)
	try:
		d3.from_bytes(buf)
		for i in range(len(buf)):
			buf[i] = 0xa5
		bad = same(v, d3.c)
		again = bytes(d3.to_bytes())
	except Exception as e:
		ctx.violation(sub, w, what = "%s decoded from a bytearray that is re-used afterwards: %s: %s" % (CLASSES[kind], type(e).__name__, e))
		return
	ctx.count("decoded_from_reused_buffer")
	if bad or again != want:
		ctx.violation(sub, dict(w, differing = bad[:8]), what = "%s: decoded values change when the receive buffer is re-used (%s)" % (
			CLASSES[kind], ", ".join(bad[:4]) or "re-encoding differs"))
		return
	# NOPE carries no burst
	if v.get("nope") == 1 and ("soft-bits" in dec.c or "hard-bits" in dec.c):
		ctx.violation(sub, w, what = "a NOPE PDU decodes with burst octets")
	# reserved bits set on input are ignored
	b = bytearray(want)
	b[0] |= 0x08
	if kind in ("v2rx", "v2tx"):
		b[1] |= 0x40        # spare bit of the first header (no 'shadow' there)
		if kind == "v2tx":
			b[5:8] = r.randbytes(3)
	try:
		d2 = mk(kind)
		d2.from_bytes(bytes(b))
		bad = same(v, d2.c)
	except Exception as e:
		ctx.violation(sub, dict(w, datagram = bytes(b)[:16].hex()), what = "reserved bits set on input make %s reject the PDU (%s)"
			% (CLASSES[kind], type(e).__name__))
		return
	ctx.count("reserved_bit_checks")
	if bad:
		ctx.violation(sub, dict(w, differing = bad[:6]), what = "reserved bits set on input change decoded values")
		return
	# a wrong version nibble is rejected
	for ver in range(16):
		if ver == VER[kind] or (r.random() < 0.8):
			continue
		b = bytearray(want)
		b[0] = (ver << 4) | (b[0] & 0x0f)
		try:
			mk(kind).from_bytes(bytes(b))
			ctx.violation(sub, dict(w, version = ver), what = "%s accepts a PDU with version nibble %d" % (CLASSES[kind], ver))
			return
		except codec.DecodeError:
			ctx.count("wrong_version_rejected")
		except Exception as e:
			ctx.violation(sub, dict(w, version = ver), what = "wrong version nibble raises %s instead of DecodeError" % type(e).__name__)
			return
	# truncated input is rejected with the codec's own error
	if len(want) > 1:
		cut = r.randrange(1, len(want))
		hdr = {"v0rx": 8, "v0tx": 6, "v1rx": 11, "v1tx": 6, "v2rx": 13, "v2tx": 13}[kind]
		if kind.startswith("v2") or cut < hdr or kind == "v1rx":
			try:
				x = mk(kind)
				x.from_bytes(want[:cut])
				# a v2 datagram cut exactly between two sub-PDUs is a complete shorter datagram
				if not kind.startswith("v2"):
					ctx.violation(sub, dict(w, cut = cut), what = "%s accepts a truncated PDU" % CLASSES[kind])
					return
			except codec.DecodeError:
				ctx.count("truncated_rejected")
			except Exception as e:
				ctx.violation(sub, dict(w, cut = cut), what = "truncated PDU raises %s instead of DecodeError" % type(e).__name__)
				return


def mechanism_of_cross(m):
	if m.get("mod") == "GMSK_AB" and m.get("tsc_set") == 1 and not m.get("nope"):
		return "gmsk-ab-tsc-set-1-is-reserved-code"
	return None


def cross_check(ctx, r, m, legacy):
	""" Every v0/v1 datagram of the message codec must be accepted by the
	    corresponding PDU definition with identical field values. """
	obj = msgs.to_real(m)
	try:
		data = bytes(obj.gen_msg(legacy))
	except ValueError:
		ctx.count("refused_by_message_codec")
		return
	kind = "v%d%s" % (m["ver"], m["dir"])
	ctx.seen(hash(("x", data)))
	ctx.count("cross_checks:%s%s" % (kind, "/legacy" if legacy and m["ver"] == 0 else ""))
	w = {"msg": trxd.brief(m), "legacy": legacy, "class": CLASSES[kind]}
	pdu = mk(kind)
	try:
		used = pdu.from_bytes(data)
	except Exception as e:
		ctx.violation("cross", w, mechanism = mechanism_of_cross(m),
			what = "%s rejects a datagram produced by the message codec (%s)" % (CLASSES[kind], type(e).__name__))
		return
	c = pdu.c
	bad = []
	if used != len(data):
		bad.append("consumed %d of %d" % (used, len(data)))
	for k in ("fn", "tn"):
		if c.get(k) != m[k]:
			bad.append(k)
	if m["dir"] == "tx":
		if c.get("pwr") != m["pwr"]:
			bad.append("pwr")
		hb = bytes(c.get("hard-bits", b""))
		pad = b"\0\0" if (legacy and m["ver"] == 0) else b""
		# the Tx definitions have no padding field: the two legacy octets of a version-0 datagram
		# show up behind the hard bits
		if hb != bytes(m["bits"]) + pad:
			bad.append("hard-bits")
	else:
		if c.get("rssi") != m["rssi"] or c.get("toa256") != m["toa256"]:
			bad.append("rssi/toa256")
		want_bits = None if m.get("soft") is None else bytes(127 - s for s in m["soft"])
		if m["ver"] == 0:
			if bytes(c.get("soft-bits", b"")) != want_bits:
				bad.append("soft-bits")
			if bytes(c.get("pad", b"")) != (b"\0\0" if legacy else b""):
				bad.append("pad")
		else:
			if c.get("cir") != m["ci"] or c.get("nope") != int(bool(m.get("nope"))):
				bad.append("cir/nope")
			if not m.get("nope"):
				if c.get("mod") != (trxd.MODS[m["mod"]][0] | m["tsc_set"]) or c.get("tsc") != m["tsc"]:
					bad.append("mod/tsc")
				if bytes(c.get("soft-bits", b"")) != want_bits:
					bad.append("soft-bits")
			elif "soft-bits" in c:
				bad.append("burst in NOPE")
	if bad:
		ctx.violation("cross", dict(w, differing = bad), what = "%s decodes a message-codec datagram to other values: %s"
			% (CLASSES[kind], ", ".join(bad)))


def run(ctx):
	ctx.rule = ("every PDU class with random and boundary field values, every modulation code, 0..8 batched sub-PDUs of mixed modulations "
		"and NOPE: encode vs documented layout, decode(encode), consumed length, reserved bits set on input, wrong version nibble, "
		"truncation; reserved modulation code 0b0111 (error path); every v0/v1 datagram class of the message codec (GSM and EDGE "
		"lengths, legacy padding on/off in the TRX->L1 direction) through the corresponding definition; distinct = distinct octet "
		"strings; all non-trivial")
	ctx.assume("PDUv0Tx has no padding field: for a legacy-padded version-0 Tx datagram the two octets are expected behind the hard bits")
	r = ctx.rng("c17")
	# all modulation codes x NOPE for the classes that carry MTS
	for kind in ("v1rx", "v2rx", "v2tx"):
		for mod in range(16):
			for nope in (0, 1):
				if mod == 0b0111 and not nope:
					# reserved code: a datagram carrying it has no defined burst length and
					# must be refused with the codec's own error, not crash or be accepted
					v = trxd.rand_pdu(r, kind, nsub = 0, mod = 0, nope = 0)
					d = bytearray(trxd.pdu_encode(kind, v))
					mts_at = 8 if kind == "v1rx" else 2
					d[mts_at] = (d[mts_at] & 0x87) | (mod << 3)
					try:
						mk(kind).from_bytes(bytes(d))
						ctx.violation("reserved-mod", {"class": CLASSES[kind]}, what = "a PDU with the reserved modulation code 0b0111 is accepted")
					except codec.DecodeError:
						ctx.count("reserved_modulation_refused")
					except Exception as e:
						ctx.violation("reserved-mod", {"class": CLASSES[kind]},
							what = "reserved modulation raises %s instead of DecodeError" % type(e).__name__)
					continue
				check_pdu(ctx, r, kind, trxd.rand_pdu(r, kind, nsub = r.choice((0, 1)), mod = mod, nope = nope), "enum-mod")
				ctx.count("enum_modulation_codes")
	n = ctx.scale(15000, 1500000)
	kinds = list(CLASSES)
	for i in range(n):
		kind = kinds[i % len(kinds)]
		v = trxd.rand_pdu(r, kind)
		if kind.startswith("v2"):
			ctx.count("v2_subpdus:%d" % len(v["bpdu"]))
		check_pdu(ctx, r, kind, v)
		if i < 6:
			ctx.sample("pdu", {"class": CLASSES[kind], "values": brief(v), "octets": trxd.pdu_encode(kind, v)[:14].hex()})
		if ctx.too_many():
			return
	for i in range(ctx.scale(20000, 2000000)):
		m = trxd.rand_msg(r)
		legacy = r.random() < 0.5
		cross_check(ctx, r, m, legacy)
		if ctx.too_many():
			return
	for (mod, s, t) in trxd.all_mts_triples():
		m = trxd.rand_rx(r, ver = 1, nope = False, mod = mod)
		m["tsc_set"], m["tsc"] = s, t
		cross_check(ctx, r, m, False)
	ctx.require("decoded_from_reused_buffer", 500)
	ctx.require("roundtrips", 5000)
	ctx.require("reserved_bit_checks", 5000)
	ctx.require("wrong_version_rejected", 1000)
	ctx.require("enum_modulation_codes", 80)
	ctx.require("cross_checks:v0rx/legacy", 500)
	ctx.require("cross_checks:v1rx", 500)
	for k in range(9):
		ctx.require("v2_subpdus:%d" % k, 20)


def replay(ctx, data):
	ctx.rule = "replay of one recorded case"
	w = common.unjson(data["witness"])
	ctx.seen(0); ctx.seen(1)
	if data["sub"] == "cross":
		ctx.inconclusive_because("cross-check witnesses store a shortened burst; rerun with the recorded seed")
	else:
		ctx.seed = data.get("seed", 0)
		run(ctx)

# C19 - GSM time arithmetic is consistent across the code base.
#
# Real gsm_utils.c (gsm_fn2gsmtime / gsm_gsmtime2fn) and real firmware sync.c
# (l1s_time_inc), ASan+UBSan, walked over the whole hyperframe against a
# division-free counter walk; Python fn2gsm_time compared with the C table.

import os

from vf import common, cbuild

SHARDS = {"quick": 16, "thorough": 16}
HYPER = 2715648


def build():
	bd = cbuild.attach("c19")
	binary = cbuild.compile_link(bd, "gsmtime_drv",
		[os.path.join(cbuild.CDIR, "drivers/gsmtime_drv.c"),
		 os.path.join(cbuild.FW, "layer1/sync.c"),
		 os.path.join(cbuild.LIBOSMO, "src/gsm/gsm_utils.c")],
		includes = cbuild.firmware_includes(bd), cflags = cbuild.GC[0], ldflags = cbuild.GC[1])
	return bd, binary


def prepare(ctx):
	bd, binary = build()
	stride = 1  # the complete (FN, delta) space takes ~5 s in C: both tiers cover it
	off = ctx.seed % stride
	script = "W\nD %d %d\nT %s\n" % (stride, off, os.path.join(bd.path, "tab.bin"))
	rc, out, err = cbuild.run_patient(binary, script.encode(), timeout = 250)
	txt = out.decode(errors = "replace")
	if rc != 0:
		rep = cbuild.sanitizer_summary(err)
		if rc == "hang":
			ctx.violation("c-walk", {"note": "the walk over the hyperframe normally takes a few seconds", "stdout": txt[-500:]},
				what = "GSM time arithmetic in C does not terminate: the walk did not finish within 250 s, twice")
		elif rep:
			ctx.violation("c-walk", {"stderr": err.decode(errors = "replace")[-2000:], "stdout": txt[-500:]},
				what = "sanitizer report / crash while stepping GSM time: %s" % rep)
		else:
			ctx.inconclusive_because("gsmtime_drv failed rc=%s: %s" % (rc, err[-300:]))
		return
	for line in txt.splitlines():
		if line.startswith("M "):
			kind = line.split()[1]
			ctx.violation("c-" + kind, {"line": line},
				what = {"fn2gsmtime": "gsm_fn2gsmtime() differs from the counter walk",
					"gsmtime2fn": "gsm_gsmtime2fn(gsm_fn2gsmtime(fn)) != fn",
					"running": "firmware running time (stepped by 1 from FN 0) differs from the decomposition of its FN",
					"running-wrap": "firmware running time does not wrap from 2715647 to 0",
					"inc1": "l1s_time_inc(t, 1) differs from the decomposition of fn+1",
					"inc": "l1s_time_inc(t, delta) differs from the decomposition of fn+delta"}.get(kind, kind))
		elif line.startswith("S "):
			f = dict(kv.split("=") for kv in line.split()[2:])
			which = line.split()[1]
			for k, v in f.items():
				ctx.count("c_%s_%s" % (which, k), int(v))
	ctx.evaluations += ctx.counters["c_walk_fns"] + ctx.counters["c_deltas_pairs"]
	ctx.distinct_extra += ctx.counters["c_walk_fns"] + ctx.counters["c_deltas_pairs"]
	ctx.sample("c-walk", {"script": script.strip().split("\n")[:2], "summary": [l for l in txt.splitlines() if l.startswith("S ")]})
	ctx.extra["delta_stride"] = stride


def run(ctx):
	common.use_toolkit()
	import gsm_shared
	f2t = gsm_shared.HoppingParams.fn2gsm_time
	ctx.rule = ("every FN 0..2715647: real gsm_fn2gsmtime vs counter walk, gsm_gsmtime2fn round trip, firmware running time "
		"stepped by 1 across the whole hyperframe and the wrap, fresh copies stepped by 1; deltas {0,2..60,102,1325,1326,1327,2652,84864,2715647} "
		"at every FN; Python fn2gsm_time vs the C table at every "
		"FN; distinct = distinct FN or (FN, delta) pairs (each is its own case); all non-trivial")
	bd = cbuild.attach("c19")
	path = os.path.join(bd.path, "tab.bin")
	if not os.path.exists(path):
		ctx.inconclusive_because("C table missing")
		return
	with open(path, "rb") as f:
		tab = f.read()
	if len(tab) != 4 * HYPER:
		ctx.inconclusive_because("C table truncated")
		return
	lo = HYPER * ctx.shard[0] // ctx.shard[1]
	hi = HYPER * (ctx.shard[0] + 1) // ctx.shard[1]
	n = 0
	for fn in range(lo, hi):
		t = f2t(fn)
		o = 4 * fn
		if t[0] != (tab[o] << 8 | tab[o + 1]) or t[1] != tab[o + 2] or t[2] != tab[o + 3]:
			ctx.violation("python-vs-c", {"fn": fn, "python": list(t),
				"c": [tab[o] << 8 | tab[o + 1], tab[o + 2], tab[o + 3]]},
				what = "Python fn2gsm_time(fn) derives other T1/T2/T3 than the C code")
			if ctx.too_many():
				break
		if len(t) > 3:
			# the fourth component, where the toolkit returns one: TC = (FN div 51) mod 8, as the C code defines it
			ctx.counters["python_tc_compared"] += 1
			if t[3] != (fn // 51) % 8:
				ctx.violation("python-vs-c", {"fn": fn, "python": list(t), "tc_expected": (fn // 51) % 8},
					what = "Python fn2gsm_time(fn) derives another TC than the C code")
				if ctx.too_many():
					break
		n += 1
	ctx.count("python_fns_compared", n)
	ctx.evaluations += n
	ctx.distinct_extra += n
	if ctx.shard[0] == 0:
		ctx.sample("python-vs-c", {"fn": hi - 1, "python": list(f2t(hi - 1))})


def finalize(ctx):
	ctx.require("c_walk_fns", HYPER)
	ctx.require("c_walk_wraps", 1)
	ctx.require("c_deltas_pairs", 100000)
	ctx.require("python_fns_compared", HYPER)
	ctx.exhaustive = (ctx.counters["c_walk_fns"] == HYPER and ctx.counters["python_fns_compared"] == HYPER
		and ctx.counters["c_deltas_fns"] == HYPER)
	ctx.extra["exhaustive_scope"] = ("delta 1, decomposition, recomposition and the Python comparison cover every FN in both tiers; "
		"the other deltas too")


def cleanup(ctx):
	cbuild.attach("c19").remove()


def replay(ctx, data):
	ctx.rule = "replay = rerun of the complete walk (it is exhaustive and takes seconds)"
	prepare(ctx)
	run(ctx)
	cleanup(ctx)

# C10 - Forwarded bursts carry faithful bits and correct simulated radio metadata.
#
# Delivered-datagram monitor: every datagram that reaches a recipient's L1 DATA
# endpoint is decoded independently (vf/ref/trxd.py) and compared with the
# metadata model of vf/radio.py.

from vf import common, radio, sim
from vf.ref import trxd, tsc as tscref

SHARDS = {"quick": 1, "thorough": 16}


def rand_burst(r, gen):
	""" -> (kind, bits) """
	k = r.random()
	if k < 0.2:
		return "random148", trxd.rand_bits(r, 148)
	if k < 0.3:
		return "random444", trxd.rand_bits(r, 444)
	if k < 0.55:
		kind = r.choice(("NB", "SB", "AB"))
		t = r.choice(sorted(tscref.TABLES[kind]))
		b = tscref.place(kind, t, r)
		if r.random() < 0.25:
			# the payload repeats a training sequence (its own, or another code's) somewhere else in the burst:
			# only the one at the defined position counts
			seq = tscref.bits(tscref.TABLES[kind][t if r.random() < 0.6 else r.choice(sorted(tscref.TABLES[kind]))])
			pos = r.choice([p for p in (0, 3, 10, 35, 45, 148 - len(seq)) if p + len(seq) <= tscref.POS[kind] + 16 or p >= tscref.POS[kind] + len(seq)] or [0])
			bb = bytearray(b)
			bb[pos:pos + len(seq)] = seq
			bb[tscref.POS[kind]:tscref.POS[kind] + len(seq)] = tscref.bits(tscref.TABLES[kind][t])
			b = bytes(bb)
		return "ref-%s-%d" % (kind, t), b
	# the toolkit's own burst generator
	which = r.choice(("nb", "sb", "ab", "fb", "db"))
	b = bytes(getattr(gen, "gen_" + which)())
	return "toolkit-" + which, b


def settings(r, bench, i, extreme):
	""" Random simulation settings on transceiver i (well-formed commands). """
	cmds = []
	if r.random() < 0.6:
		cmds.append("SETTA %d" % (r.choice((0, 1, 2, 63, -1, 127, -128)) if r.random() < .5 else r.randint(0, 63)))
	if r.random() < 0.6:
		# also attenuations beyond the nominal power (50 dBm): the RSSI formula has no floor; with a small
		# burst attenuation the result is still inside the protocol range
		cmds.append("SETPOWER %d" % r.choice((0, 1, 5, 10, 20, 30, 45, 50, 51, 55, 60)))
	if r.random() < 0.6:
		base = r.choice((0, 1, -1, 256, -256, 1000, 30000 if extreme else 3000, r.randint(-2000, 2000)))
		cmds.append("FAKE_TOA %d %d" % (base, r.choice((0, 0, 1, 10, 100, 300))))
	if r.random() < 0.3:
		cmds.append("FAKE_TOA %d" % r.randint(-300, 300))
	if r.random() < 0.4:
		cmds.append("FAKE_RSSI %d %d" % (r.choice((-110, -100, -80, -60, -50, -47, -120, -46 if extreme else -70)),
			r.choice((0, 0, 1, 3, 10))))
	if r.random() < 0.15:
		cmds.append("FAKE_RSSI %d" % r.randint(-10, 10))
	if r.random() < 0.15:
		cmds.append("FAKE_RSSI -60 -1")
	if r.random() < 0.5:
		cmds.append("FAKE_CI %d %d" % (r.choice((90, 0, -30, 1280, -1280, 1281 if extreme else 100, r.randint(-500, 500))),
			r.choice((0, 0, 1, 20, 200))))
	if r.random() < 0.2:
		cmds.append("FAKE_CI %d" % r.randint(-50, 50))
	if r.random() < 0.2:
		# refused forms: they must leave every setting as it was
		cmds.append(r.choice(("FAKE_DROP -1", "FAKE_DROP 2 0", "FAKE_DROP -3 -3", "SETFORMAT 16", "SETFORMAT -1", "SETFORMAT 9")))
	r.shuffle(cmds)
	return cmds


def run_config(ctx, r, idx, gen):
	three = r.random() < 0.4
	specs = [{"base_port": 5700, "name": "A"}, {"base_port": 6700, "name": "B"}]
	if three:
		specs.append({"base_port": 7700, "name": "C"})
	elif r.random() < 0.4:
		# a child transceiver of A: its settings are its own, whatever is sent to the parent
		specs.append({"base_port": 5700, "child_of": 0, "child_idx": 1, "name": "A/1"})
	bench = radio.Bench(r.getrandbits(30), specs)
	n = len(specs)
	extreme = r.random() < 0.25
	log = []

	def cmd(i, text):
		st, mst = bench.cmd(i, text)
		log.append("%s: %s -> %d" % (specs[i]["name"], text, st))
		if st != mst and not isinstance(mst, tuple):
			ctx.violation("config", {"commands": log[-10:]},
				what = "configuration command answered %d, the TRXC model says %r" % (st, mst))
			return False
		return True

	ok = True
	for i in range(n):
		rx, tx = (890000, 935000) if (i == 0 or specs[i].get("child_of") is not None) else (935000, 890000)
		ok = ok and cmd(i, "RXTUNE %d" % rx) and cmd(i, "TXTUNE %d" % tx)
		ok = ok and cmd(i, "SETFORMAT %d" % r.choice((0, 1)))
		if r.random() < 0.3:
			# an unsupported version is answered with a suggestion and must not change anything
			ok = ok and cmd(i, "SETFORMAT %d" % r.choice((2, 3, 7, 15)))
	for i in range(n):
		if not bench.models[i].running:
			ok = ok and cmd(i, "POWERON")
	if not ok:
		return
	vers = tuple(m.ver for m in bench.models)
	ctx.count("version_combo:%s" % "/".join(map(str, vers)))
	for i in range(n):
		for c in settings(r, bench, i, extreme):
			if not cmd(i, c):
				return
	nb = r.randint(15, 40)
	fn = r.randrange(trxd.HYPERFRAME)
	for b in range(nb):
		if r.random() < 0.1:
			i = r.randrange(n)
			for c in settings(r, bench, i, extreme)[:2]:
				if not cmd(i, c):
					return
		s = r.randrange(n)
		kind, bits = rand_burst(r, gen)
		fn = (fn + r.choice((1, 1, 2, 51))) % trxd.HYPERFRAME
		pwr = r.choice((0, 0, 1, 5, 10, 20, 30)) if r.random() < 0.85 else r.randrange(256)
		m = {"dir": "tx", "ver": bench.models[s].ver, "fn": fn, "tn": r.randrange(8), "pwr": pwr, "bits": bits}
		rcpt = bench.recipients(s, fn)
		acc, got = bench.transmit(s, m)
		ctx.count("bursts")
		ctx.count("burst_kind:%s" % kind.split("-")[0])
		if not acc:
			ctx.violation("transmit", {"commands": log[-12:], "burst": trxd.brief(m)},
				what = "valid burst with the negotiated header version not accepted by the sender's DATA interface")
			return
		for j in range(n):
			if j not in rcpt:
				if got[j]:
					ctx.violation("routing", {"commands": log[-12:], "burst": trxd.brief(m), "recipient": specs[j]["name"]},
						what = "datagram delivered to a transceiver that must not receive it (C02)")
				continue
			e = radio.expected(bench.models[s], bench.models[j], bench.budgets[j], m, bits)
			res = radio.check(e, got[j], bench.budgets[j])
			ctx.count("deliveries_checked")
			key = (kind, vers[s], vers[j], pwr, tuple(sorted((k, v) for k, v in e.items() if k not in ("soft",) and not isinstance(v, list))))
			ctx.seen(hash((key, bits)))
			if isinstance(res, str):
				ctx.violation("metadata", {"commands": log, "burst": trxd.brief(m), "burst_kind": kind,
					"sender": specs[s]["name"], "recipient": specs[j]["name"],
					"expected": {k: v for k, v in e.items() if k != "soft"},
					"datagram": got[j][0][:16].hex() if got[j] else None},
					what = res)
				if ctx.too_many():
					return
				continue
			if isinstance(res, dict):
				ctx.count("bursts_delivered")
				if "tsc_any_of" in e:
					ctx.count("tsc_detected:%s" % kind.split("-")[0])
					ctx.count("tsc:%s" % kind)
				for k in ("rssi", "toa256", "ci"):
					if k in e and e[k][0] != e[k][1]:
						ctx.count("randomised_%s_checked" % k)
						spread = ctx.extra.setdefault("_spread", {}).setdefault(k, set())
						if len(spread) < 64:
							spread.add(res[k] - e[k][0])
				if idx < 2 and b < 2:
					ctx.sample("delivery", {"commands": log[-6:], "burst_kind": kind, "decoded": trxd.brief(res),
						"expected_windows": {k: e[k] for k in ("rssi", "toa256", "ci") if k in e}})
			else:
				ctx.count("bursts_legitimately_not_sent")


def crosscheck_tables(ctx):
	""" ref/tsc.py vs trxcon's C tables, parsed from the sources at run time. """
	import os, re
	base = os.path.join(common.REPO, "src/host/trxcon/src")
	try:
		txt = open(os.path.join(base, "sched_lchan_common.c")).read()
		m = re.search(r"l1sched_nb_training_bits\[8\]\[26\]\s*=\s*\{(.*?)\};", txt, re.S)
		rows = re.findall(r"\{([^{}]*)\}", m.group(1))
		nb = ["".join(re.findall(r"[01]", row)) for row in rows]
		txt2 = open(os.path.join(base, "sched_lchan_rach.c")).read()
		ab = re.findall(r"\[RACH_SYNCH_SEQ_TS(\d)\]\s*=\s*\"([01]+)\"", txt2)
	except Exception as e:
		ctx.count("trxcon_tables_unparsable")
		return
	for t, s in enumerate(nb):
		ctx.count("trxcon_table_rows_compared")
		if s != tscref.NB[t]:
			ctx.violation("tables", {"tsc": t, "trxcon": s, "ref": tscref.NB[t]},
				what = "trxcon normal-burst training sequence differs from the frozen TS 45.002 copy")
	for t, s in ab:
		ctx.count("trxcon_table_rows_compared")
		if s != tscref.AB[int(t)]:
			ctx.violation("tables", {"tsc": int(t), "trxcon": s, "ref": tscref.AB[int(t)]},
				what = "trxcon access-burst synch sequence differs from the frozen TS 45.002 copy")


def run(ctx):
	ctx.rule = ("pairs and triples of real FakeTRX in all header-version combinations, random SETTA/SETPOWER/FAKE_TOA/FAKE_RSSI/FAKE_CI "
		"(absolute and relative forms, some pushing values out of range), bursts = random 148/444 bits, harness-built NB/SB/AB with "
		"frozen training sequences, and the toolkit's own RandBurstGen output; every delivered datagram decoded independently; "
		"distinct = distinct (burst kind, versions, attenuation, expectation, bits); all non-trivial")
	common.use_toolkit()
	import rand_burst_gen
	gen = rand_burst_gen.RandBurstGen()
	crosscheck_tables(ctx)
	r = ctx.rng("c10")
	for i in range(ctx.scale(1200, 40000)):
		with common.case_watchdog(ctx, "config", {"case": i}, first = 60, second = 60):
			run_config(ctx, ctx.case_rng("config", i), i, gen)
		ctx.count("configurations")
		if ctx.too_many() or ctx.time_left() < 0:
			break
	ctx.current_case = None
	sp = ctx.extra.pop("_spread", {})
	ctx.extra["distinct_offsets_seen_inside_randomised_windows"] = {k: len(v) for k, v in sp.items()}
	for k, v in sp.items():
		if len(v) < 3:
			ctx.inconclusive_because("randomised %s never moved inside its window" % k)
	ctx.require("deliveries_checked", 1000)
	ctx.require("bursts_delivered", 500)
	ctx.require("tsc_detected:ref", 50)
	ctx.require("tsc_detected:toolkit", 50)
	ctx.require("randomised_toa256_checked", 50)
	ctx.require("bursts_legitimately_not_sent", 10)


def replay(ctx, data):
	if common.replay_case(ctx, data, {"config": lambda c, r, i: run_config(c, r, i, __import__("rand_burst_gen").RandBurstGen())}):
		return
	ctx.rule = "replay: no case coordinates in the witness; rerunning the check with the recorded seed"
	ctx.seed = data.get("seed", 0)
	run(ctx)

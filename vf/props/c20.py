# C20 - Mobile Allocation decoding selects exactly the flagged cell channels.
#
# The text of gsm48_decode_mobile_alloc() is extracted from the working tree at
# build time (its TU needs libosmo-gprs, absent here) and compiled with
# ASan+UBSan into a driver using exact-size heap buffers.  Output monitor vs
# vf/ref/malloc48.py plus the sanitizers.

import os
import re

from vf import common, cbuild
from vf.ref import malloc48

SHARDS = {"quick": 1, "thorough": 16}
SYSINFO_C = os.path.join(common.REPO, "src/host/layer23/src/common/sysinfo.c")
SYSINFO_H = os.path.join(common.REPO, "src/host/layer23/include/osmocom/bb/common/sysinfo.h")


def extract_function():
	with open(SYSINFO_C) as f:
		lines = f.read().split("\n")
	start = None
	for i, l in enumerate(lines):
		if re.match(r"^int\s+gsm48_decode_mobile_alloc\s*\(", l):
			start = i
			break
	if start is None:
		raise common.HarnessError("gsm48_decode_mobile_alloc not found in sysinfo.c")
	end = None
	for i in range(start, len(lines)):
		if lines[i].startswith("}"):
			end = i
			break
	if end is None:
		raise common.HarnessError("end of gsm48_decode_mobile_alloc not found")
	with open(SYSINFO_H) as f:
		defs = [l for l in f.read().split("\n") if re.match(r"^#define\s+FREQ_TYPE_", l)]
	if not any("FREQ_TYPE_SERV" in d for d in defs):
		raise common.HarnessError("FREQ_TYPE_* definitions not found in sysinfo.h")
	return "\n".join(lines[start:end + 1]), "\n".join(defs)


def build(tag):
	bd = cbuild.BuildDir(tag)
	func, defs = extract_function()
	with open(os.path.join(cbuild.CDIR, "drivers/maalloc_main.c")) as f:
		main = f.read()
	tu = os.path.join(bd.path, "maalloc_tu.c")
	with open(tu, "w") as f:
		f.write("/* generated: function text from %s */\n" % SYSINFO_C)
		f.write("#include <stdint.h>\n#include <errno.h>\n#include <string.h>\n#include <stdbool.h>\n")
		f.write("#include <osmocom/gsm/gsm48_ie.h>\n")
		f.write(defs + "\n")
		f.write("#define LOGP(ss, level, fmt, args...) do { } while (0)\n")
		f.write("#define DRR 0\n#define LOGL_INFO 0\n#define LOGL_NOTICE 0\n#define LOGL_ERROR 0\n#define LOGL_DEBUG 0\n")
		f.write(func + "\n")
		f.write(main)
	# -fno-sanitize=vla-bound: a zero-length VLA is not what the property is about;
	# the out-of-bounds *access* is still reported by -fsanitize=bounds and ASan
	binary = cbuild.compile_link(bd, "maalloc_drv", [tu],
		includes = [os.path.join(cbuild.LIBOSMO, "include")],
		cflags = ["-fno-sanitize=vla-bound", "-fsanitize=bounds"])
	return bd, binary


def gen_case(r):
	k = r.random()
	# cell allocation
	if k < 0.1:
		size = 0
	elif k < 0.2:
		size = r.choice((1, 2, 63, 64, 65, 70))
	else:
		size = r.randint(0, 64)
	if r.random() < 0.5:
		base = r.randrange(1, 1024 - 80)
		pool = list(range(base, base + 80))
	else:
		pool = list(range(1, 1024))
	ca = set(r.sample(pool, min(size, len(pool))))
	if r.random() < 0.4 and size > 0:
		ca.discard(next(iter(ca)))
		ca.add(0)
	# bitmap
	ln = r.choice((0, 1, 2, 7, 8, 9)) if r.random() < 0.5 else r.randint(0, 9)
	if r.random() < 0.1:
		ln = r.choice((10, 16, 64, 200, 255))
	m = r.randrange(5)
	if m == 0:
		ma = bytes(ln)
	elif m == 1:
		ma = bytes([0xff]) * ln
	elif m == 2 and ln:
		b = bytearray(ln)
		bit = r.randrange(ln * 8)
		b[ln - 1 - (bit >> 3)] |= 1 << (bit & 7)
		ma = bytes(b)
	elif m == 3 and ln:
		# exactly the bits below the size of the cell allocation, or one beyond
		nb = min(ln * 8, len(ca) + r.choice((0, 0, 1)))
		b = bytearray(ln)
		for bit in range(nb):
			if r.random() < 0.7 or bit == nb - 1:
				b[ln - 1 - (bit >> 3)] |= 1 << (bit & 7)
		ma = bytes(b)
	else:
		ma = r.randbytes(ln)
	si4 = r.random() < 0.5
	# flags left behind by earlier decodes: HOPP flags of the previous cell allocation (also when si4 = 0: the cell allocation
	# may have been replaced since the SI 4 decode that set them), inside and outside the current cell allocation, and
	# neighbour-cell / report flags on any channel
	pre = []
	if r.random() < 0.6:
		pre = r.sample(range(1024), r.randint(0, 5))
		if ca and r.random() < 0.5:
			pre += r.sample(sorted(ca), min(len(ca), r.randint(1, 3)))
			lo, hi = min(ca), max(ca)
			pre += [a for a in (lo - 1, lo + 1, hi - 1, hi + 1, (lo + hi) // 2) if 0 <= a < 1024 and r.random() < 0.5]
		pre = sorted(set(pre))
	other = []
	if r.random() < 0.4:
		chans = r.sample(range(1024), r.randint(1, 6)) + (r.sample(sorted(ca), min(len(ca), 2)) if ca else [])
		other = [(a, r.choice((0x04, 0x08, 0x10, 0x1c, 0x20, 0x40, 0x80, 0xe0, 0xfc))) for a in sorted(set(chans))]
	return {"ca": sorted(ca), "ma": ma, "si4": si4, "pre": pre, "other": other}


def render(idx, c):
	other = c.get("other", [])
	return ("N %d\nC %d %d %s %d %s %d %s %d %s\n" % (idx, int(c["si4"]), len(c["ma"]), c["ma"].hex() or "-",
		len(c["ca"]), " ".join(map(str, c["ca"])), len(c["pre"]), " ".join(map(str, c["pre"])),
		len(other), " ".join("%d %d" % (a, m) for a, m in other))).encode()


def mechanism_of(c, what):
	return None


def judge(ctx, binary, cases, sub):
	scripts = [render(i, c) for i, c in enumerate(cases)]
	outputs, crashes = cbuild.run_cases(binary, scripts)
	crashed = {c[0]: c for c in crashes}
	for i, c in enumerate(cases):
		ctx.seen(common.h64(scripts[i]))
		ctx.count("len_%d" % min(len(c["ma"]), 10))
		if i in crashed:
			_, rc, err, rep = crashed[i]
			ctx.violation(sub, {"case": c, "stderr": err[-1500:]},
				what = "decoder touches memory outside its buffers / dies (rc=%s): %s" % (rc, rep or "no sanitizer report"))
			continue
		out = outputs[i]
		if out is None or len(out) < 2:
			ctx.inconclusive_because("case %d produced no output" % i)
			continue
		ctx.count("cases")
		ok, want = malloc48.decode(set(c["ca"]), c["ma"])
		p = out[0].split()
		rc = int(p[1])
		hopp_after = [int(x) for x in out[1].split()[1:]]
		if len(out) > 2 and out[2].startswith("X"):
			ctx.count("other_flags_compared")
			if int(out[2].split()[1]) != 0:
				ctx.violation(sub, {"case": c, "output": out},
					what = "the decoder changed flags other than FREQ_TYPE_HOPP on %s channel(s)" % out[2].split()[1])
				continue
		if c["pre"] and not c["si4"]:
			ctx.count("stale_hopp_flags_with_si4_off")
		if not ok:
			ctx.count("rejected_expected")
			if rc >= 0:
				ctx.violation(sub, {"case": c, "output": out}, what = "a bitmap longer than 8 octets is not rejected")
			elif p[2] != "-" or int(p[3]) != 0:
				ctx.violation(sub, {"case": c, "output": out}, what = "outputs modified although the bitmap was rejected")
			continue
		if rc != 0 or p[2] == "-":
			ctx.violation(sub, {"case": c, "output": out}, what = "valid bitmap not decoded (rc=%d)" % rc)
			continue
		n = int(p[2])
		got = [int(x) for x in p[3:]]
		if n > 64:
			ctx.violation(sub, {"case": c, "output": out}, what = "more than 64 hopping entries")
			continue
		if got != want or n != len(want):
			outside = [a for a in got if a not in c["ca"]]
			ctx.violation(sub, {"case": c, "got": got, "expected": want},
				what = "hopping list differs from TS 44.018 10.5.2.21" +
					(" (contains channels outside the cell allocation)" if outside else ""))
			continue
		if want:
			ctx.count("nonempty_lists")
		if len(want) < sum(bin(b).count("1") for b in c["ma"]):
			ctx.count("stopped_at_bit_beyond_ca")
		if c["si4"]:
			ctx.count("si4_cases")
			if sorted(hopp_after) != sorted(set(want)):
				ctx.violation(sub, {"case": c, "hopp_flags": hopp_after, "expected": sorted(set(want))},
					what = "with si4 the HOPP flags are not exactly on the returned channels")
		elif sorted(hopp_after) != sorted(c["pre"]):
			ctx.violation(sub, {"case": c, "hopp_flags": hopp_after}, what = "HOPP flags changed although si4 = 0")
		if ctx.too_many():
			break


def run(ctx):
	ctx.rule = ("cell allocations of size 0..70 over ARFCN 0..1023 (clustered and spread, with and without ARFCN 0), bitmap lengths 0..9 "
		"and a few longer, bitmaps all-zero / all-one / one-hot / dense up to or just beyond the cell allocation / random, si4 on/off with "
		"pre-set flags; distinct = distinct cases by hash; all non-trivial")
	ctx.assume("only the decoder function is executed (text extracted from sysinfo.c); its two call sites are not")
	bd, binary = build("c20")
	try:
		r = ctx.rng("c20")
		total = ctx.scale(40000, 4800000)
		done = 0
		while done < total and not ctx.too_many() and ctx.time_left() > 0:
			n = min(20000, total - done)
			cases = [gen_case(r) for _ in range(n)]
			if done == 0:
				for c in cases[:3]:
					ctx.sample("case", {"ca": c["ca"], "ma": c["ma"].hex(), "si4": c["si4"]})
			judge(ctx, binary, cases, "decode")
			done += n
	finally:
		bd.remove()
	ctx.require("cases", 1000)
	ctx.require("len_0", 50)
	ctx.require("len_8", 50)
	ctx.require("rejected_expected", 50)
	ctx.require("nonempty_lists", 500)
	ctx.require("stopped_at_bit_beyond_ca", 50)
	ctx.require("si4_cases", 200)


def replay(ctx, data):
	ctx.rule = "replay of one recorded case"
	c = common.unjson(data["witness"]["case"])
	if not isinstance(c["ma"], bytes):
		c["ma"] = bytes(c["ma"])
	bd, binary = build("c20r")
	try:
		judge(ctx, binary, [c], data["sub"])
		ctx.seen(1)
	finally:
		bd.remove()

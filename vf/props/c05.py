# C05 - Every TRXC command gets exactly one well-formed response with documented effect.
#
# (A) request/response history monitor: random command sequences against real
#     FakeTRX objects on vnet, compared with the protocol state machine
#     vf/ref/trxc.py (status, echo of the arguments, results, reply address,
#     hooked state, behavioural probe bursts);
# (B) trxcon compatibility: every command the real trx_if.c emits is answered
#     by a real FakeTRX and the reply is fed to the real trx_ctrl_read_cb
#     (ASan+UBSan), including SETFH with the longest MA trxcon can encode.

import os

from vf import common, radio, sim, cbuild
from vf.ref import trxc, trxd, hopping

SHARDS = {"quick": 1, "thorough": 16}

VERBS = ["POWERON", "POWEROFF", "RXTUNE", "TXTUNE", "MEASURE", "SETFH", "SETFORMAT", "SETPOWER", "NOMTXPOWER",
	"RFMUTE", "SETTA", "FAKE_TOA", "FAKE_RSSI", "FAKE_CI", "FAKE_DROP", "SETSLOT", "SETTSC", "SETBSIC",
	"SETRXGAIN", "ADJPOWER", "NOHANDOVER", "ECHO", "XYZZY", "poweron", "FAKE_TRXC_DELAY"]
POOL = [890000, 890200, 935000, 935200, 902000]


VT = [None]      # virtual time source of ctrl_if (FAKE_TRXC_DELAY sleeps on it)


def rand_int(r, verb, pos):
	k = r.random()
	if verb in ("RXTUNE", "TXTUNE", "MEASURE") or (verb == "SETFH" and pos >= 2):
		return r.choice(POOL) if k < 0.8 else r.choice((0, 1, 2**31, 2**63, 999999))
	if verb == "SETFH":
		return r.randrange(64)   # HSN / MAIO inside their ranges (outside: C14)
	if verb == "SETFORMAT":
		return r.choice((0, 1, 2, 3, 15, 16, -1, 255, 7))
	if verb in ("FAKE_TOA", "FAKE_CI") and pos == 1:
		return r.choice((0, 0, 1, 5, 50))      # thresholds >= 0 (negative: C14)
	if verb == "FAKE_RSSI" and pos == 1:
		return r.choice((0, 1, 5, -1, -7))
	if verb == "FAKE_RSSI":
		return r.choice((-60, -80, -110, -47, -120, 0, 10, -200)) if pos == 0 else r.randint(-5, 5)
	if verb == "FAKE_DROP":
		return r.choice((0, 1, 2, 5, -1, -3, 60)) if pos == 0 else r.choice((1, 2, 13, 0, -1, 51))
	if verb == "SETTA":
		return r.choice((0, 1, 63, -1, 127, -128, 2**31))
	if verb == "SETPOWER":
		return r.choice((0, 1, 10, 20, -5, 2**31))
	if verb == "RFMUTE":
		return r.choice((0, 1, 2, -1))
	if verb == "FAKE_TRXC_DELAY":
		if VT[0] is None:
			return 0        # the sleep could not be made virtual: no real delays in this workload
		return r.choice((0, 0, 1, 20, 250, 60000))       # the documented range (values outside it: C14)
	if k < 0.5:
		return r.choice((0, 1, -1, 2**31 - 1, 2**31, -2**31, 2**63, -2**63, 255, 256))
	return r.randint(-1000, 1000)


def rand_cmd(r):
	verb = r.choice(VERBS)
	natural = {"POWERON": 0, "POWEROFF": 0, "RXTUNE": 1, "TXTUNE": 1, "MEASURE": 1, "SETFORMAT": 1, "SETPOWER": 1,
		"NOMTXPOWER": 0, "RFMUTE": 1, "SETTA": 1, "FAKE_TRXC_DELAY": 1}.get(verb)
	if verb == "SETFH":
		argc = r.choice((4, 4, 6, 8, 5, 7, 3, 2, 0, 20, 40, 130))
	elif verb.startswith("FAKE_"):
		argc = r.choice((1, 2, 1, 2, 0, 3, 5, 8))
	elif natural is not None and r.random() < 0.75:
		argc = natural
	else:
		# also more arguments than any fixed-arity verb takes (only SETFH is variadic)
		argc = r.choice((0, 1, 2, 3, 4, 5, 6, 8, 9))
	args = [str(rand_int(r, verb, i)) for i in range(argc)]
	if r.random() < 0.03 and args:
		args[r.randrange(len(args))] = "+" + args[0].lstrip("-")
	return verb, args


def state_mismatch(real, m, budget):
	""" Second line of defence: hooked attributes vs the model (skipped if absent). """
	miss = object()
	pairs = [("running", m.running), ("_rx_freq", None if m.rx_khz is None else m.rx_khz * 1000),
		("_tx_freq", None if m.tx_khz is None else m.tx_khz * 1000), ("rf_muted", m.muted),
		("tx_att_base", m.tx_att), ("ta", m.ta), ("toa256_base", m.toa_base), ("toa256_rand_threshold", m.toa_thr),
		("fake_rssi_enabled", m.fake_rssi), ("ci_base", m.ci_base), ("ci_rand_threshold", m.ci_thr),
		("burst_drop_period", budget.period)]
	amount = getattr(real, "burst_drop_amount", None)
	extra = []
	if amount is not None and not budget.lo <= amount <= budget.hi:
		extra.append("burst_drop_amount=%r (model %d..%d)" % (amount, budget.lo, budget.hi))
	if m.fake_rssi:
		pairs += [("rssi_base", m.rssi_base), ("rssi_rand_threshold", m.rssi_thr)]
	out = extra
	for attr, want in pairs:
		got = getattr(real, attr, miss)
		if got is miss:
			continue
		if got != want:
			out.append("%s=%r (model %r)" % (attr, got, want))
	ver = getattr(getattr(real, "data_if", None), "_hdr_ver", miss)
	if ver is not miss and ver != m.ver:
		out.append("header version %r (model %r)" % (ver, m.ver))
	fh = getattr(real, "fh", miss)
	if fh is not miss:
		if (fh is None) != (m.fh is None):
			out.append("hopping %s (model %s)" % ("off" if fh is None else "on", "off" if m.fh is None else "on"))
		elif fh is not None:
			try:
				g = (getattr(fh, "hsn", None), getattr(fh, "maio", None),
					[(a // 1000, b // 1000) for a, b in getattr(fh, "ma", [])])
			except (TypeError, ValueError):
				g = ("mobile allocation is not a list of (Rx, Tx) pairs", None, [])
			if g != (m.fh[0], m.fh[1], list(m.fh[2])):
				out.append("hopping parameters differ (%d channels, model %d)" % (len(g[2]), len(m.fh[2])))
	return out


def sequence(ctx, r, idx):
	three = r.random() < 0.5
	specs = [{"base_port": 5700, "name": "A"}, {"base_port": 6700, "name": "B", "pm": r.random() < 0.7}]
	if three:
		specs.append({"base_port": 5700, "child_of": 0, "child_idx": 1, "name": "A/1", "pm": False})
	bench = radio.Bench(r.getrandbits(30), specs)
	n = len(specs)
	# a sender that is not the configured remote: another port, sometimes another host address as well
	other = bench.world.net.endpoint(r.choice(("127.0.0.1", "127.0.0.1", "127.0.0.2", "10.1.2.3")), 45000 + (idx % 1000))
	log = []
	# a random prior state
	linked = r.random() < 0.6
	try:
		for i in range(n):
			if linked:
				rx, tx = (POOL[0], POOL[2]) if i != 1 else (POOL[2], POOL[0])
				bench.cmd(i, "RXTUNE %d" % rx)
				bench.cmd(i, "TXTUNE %d" % tx)
				if r.random() < 0.8:
					bench.cmd(i, "POWERON")
			elif r.random() < 0.7:
				bench.cmd(i, "RXTUNE %d" % r.choice(POOL))
				bench.cmd(i, "TXTUNE %d" % r.choice(POOL))
	except common.HarnessError as e:
		# the plain commands of the set-up are part of the property too
		ctx.violation("reply-count", {"phase": "set-up of a prior state with RXTUNE / TXTUNE / POWERON"},
			what = "a valid command was not answered with exactly one well-formed reply: %s" % e)
		return
	for k in range(r.randint(15, 40)):
		i = r.randrange(n)
		node, m = bench.nodes[i], bench.models[i]
		if r.random() < 0.06:
			# datagrams without the CMD prefix: nothing may come back, nothing may change
			junk = r.choice((b"RSP POWERON 0\0", b"IND CLOCK 5\0", b"cmd POWERON\0", b"", b"\0", b"POWERON\0", b" CMD POWERON\0",
				b"CM", b"XCMD POWEROFF\0",
				# octets that are no text in front of a command do not make it one
				b"\xff\xfeCMD POWEROFF\0", b"\x80CMD RXTUNE 935200\0", b"\xc3CMD POWERON\0", b"\xffCMD SETFORMAT 1\0", b"\xf0\x9fCMD RFMUTE 1\0"))
			node.l1_ctrl.sendto(junk, node.ctrl_port)
			try:
				node.trx.ctrl_if.handle_rx()
			except Exception as e:
				ctx.count("non_cmd_datagram_raised")    # C14's business
			rsp = node.l1_ctrl.take_all()
			ctx.count("non_cmd_datagrams")
			if rsp:
				ctx.violation("non-cmd", {"datagram": junk.hex(), "replies": [d.hex() for d, _ in rsp]},
					what = "a datagram without the CMD prefix was answered")
				return
			continue
		verb, args = rand_cmd(r)
		text = " ".join([verb] + args)
		payload = ("CMD " + text + "\0").encode()
		from_other = r.random() < 0.15
		src = other if from_other else node.l1_ctrl
		log.append("%s <- %s%s" % (specs[i]["name"], text[:90], " (from %s:%d)" % other.addr if from_other else ""))
		src.sendto(payload, node.ctrl_port)
		t_before = VT[0].now if VT[0] is not None else None
		node.trx.ctrl_if.handle_rx()
		slept_ns = (VT[0].now - t_before) if t_before is not None else None
		at_src = [d for d, _ in src.take_all()]
		elsewhere = [d for d, _ in (node.l1_ctrl.take_all() if from_other else other.take_all())]
		ctx.count("commands")
		ctx.seen(hash((ctx.shard[0], idx, k, text)))
		w = {"history": log[-12:], "command": text[:300], "replies": [d[:80].hex() for d in at_src]}
		if len(at_src) != 1 or elsewhere:
			ctx.violation("reply-count", dict(w, elsewhere = len(elsewhere)),
				what = "%d replies at the sender's address and %d elsewhere (expected exactly one, to the sender)"
				% (len(at_src), len(elsewhere)))
			return
		parsed = trxc.parse_response(at_src[0])
		if parsed is None:
			ctx.violation("reply-form", w, what = "reply is not 'RSP <verb> <status> <args...>' terminated by NUL")
			return
		rverb, st, rest = parsed
		mst, results = trxc.apply(m, verb, args, bench.models)
		if verb == "FAKE_DROP" and mst == 0 and len(args) in (1, 2):
			bench.budgets[i].set(m.drop_amount, m.drop_period)
		ctx.count("verb:%s/argc=%d/status=%s" % (verb, min(len(args), 9), st))
		if slept_ns is not None:
			# FAKE_TRXC_DELAY: every reply (its own included) is held back by the configured number of milliseconds
			ctx.count("reply_delays_checked")
			if m.trxc_delay_ms:
				ctx.count("replies_with_a_configured_delay")
			if slept_ns != m.trxc_delay_ms * 1000000:
				ctx.violation("effect", dict(w, slept_ms = slept_ns / 1e6, configured_ms = m.trxc_delay_ms),
					what = "reply held back by %.3f ms, FAKE_TRXC_DELAY in effect is %d ms" % (slept_ns / 1e6, m.trxc_delay_ms))
				return
		if rverb != verb:
			ctx.violation("reply-form", w, what = "reply names verb %r" % rverb)
			return
		ok_status = (st in mst[1:]) if isinstance(mst, tuple) else (st == mst)
		if not ok_status:
			ctx.violation("status", dict(w, status = st, expected = mst),
				what = "%s (argc %d) answered %d, documented semantics give %r" % (verb, len(args), st, mst))
			return
		if isinstance(mst, tuple) and st != 0:
			m.fh = m.fh      # rejected: no change
		nres = len(results) if results else 0
		if rest[:len(args)] != args or len(rest) != len(args) + nres:
			ctx.violation("reply-form", dict(w, rest = rest[:12]),
				what = "reply does not echo the original arguments followed by %d result(s)" % nres)
			return
		if results:
			got = rest[len(args):]
			for g, want in zip(got, results):
				if isinstance(want, tuple):
					if not (trxc.is_intlit(g) and want[1] <= int(g) <= want[2]):
						ctx.violation("result", dict(w, result = g, window = want[1:]),
							what = "%s result outside the window implied by the transmitters on that frequency" % verb)
						return
					ctx.count("measure_window:%d..%d" % (want[1], want[2]))
				elif g != want:
					ctx.violation("result", dict(w, result = g, expected = want), what = "%s result differs" % verb)
					return
		bad = state_mismatch(node.trx, m, bench.budgets[i])
		for j in range(n):
			if j != i:
				bad += ["%s: %s" % (specs[j]["name"], x) for x in state_mismatch(bench.nodes[j].trx, bench.models[j], bench.budgets[j])]
		ctx.count("state_comparisons")
		if bad:
			ctx.violation("effect", dict(w, differences = bad[:6]),
				what = "transceiver state after %s differs from the documented effect" % verb)
			return
		# behavioural probe: a burst through the configured transceivers
		if r.random() < 0.4:
			probe(ctx, r, bench, specs, log)
			if ctx.too_many():
				return
	if idx < 3:
		ctx.sample("sequence", log[-10:])


def probe(ctx, r, bench, specs, log):
	n = len(bench.models)
	s = r.randrange(n)
	snd = bench.models[s]
	fn = r.randrange(trxd.HYPERFRAME)
	bits = trxd.rand_bits(r, 148)
	m = {"dir": "tx", "ver": snd.ver, "fn": fn, "tn": r.randrange(8), "pwr": r.choice((0, 3)), "bits": bits}
	if snd.fh is not None and any(not 0 <= f for p in snd.fh[2] for f in p):
		return
	try:
		rcpt = bench.recipients(s, fn) if snd.running else []
	except Exception:
		return
	acc, got = bench.transmit(s, m)
	ctx.count("probes")
	if acc != snd.running:
		ctx.violation("probe", {"history": log[-12:], "sender": specs[s]["name"]},
			what = "probe burst %s although the model says the transceiver is %s" %
			("accepted" if acc else "refused", "running" if snd.running else "powered off"))
		return
	for j in range(n):
		if j not in rcpt:
			if got[j]:
				ctx.violation("probe", {"history": log[-12:], "recipient": specs[j]["name"]},
					what = "probe burst delivered to a transceiver the commands did not tune / power for it")
			continue
		e = radio.expected(snd, bench.models[j], bench.budgets[j], m, bits)
		res = radio.check(e, got[j], bench.budgets[j])
		ctx.count("probe_deliveries")
		if isinstance(res, str):
			ctx.violation("probe", {"history": log[-14:], "sender": specs[s]["name"], "recipient": specs[j]["name"],
				"expected": {k: v for k, v in e.items() if k != "soft"}}, what = "behaviour after the commands: " + res)
			return


# ---------------------------------------------------------------------------
# (B) trxcon compatibility

def arfcn_khz(arfcn):
	""" (downlink kHz, uplink kHz) per 3GPP TS 45.005 for the bands used here. """
	if arfcn & 0x8000:
		# PCS 1900 shares the numbers 512..810 with DCS 1800; the firmware / trxcon numbering marks it with bit 15
		ul = 1850200 + 200 * ((arfcn & 0x3ff) - 512)
		return ul + 80000, ul
	if 1 <= arfcn <= 124:
		ul = 890000 + 200 * arfcn
		return ul + 45000, ul
	if arfcn == 0 or 975 <= arfcn <= 1023:
		ul = 890000 + 200 * (arfcn - 1024 if arfcn else 0)
		return ul + 45000, ul
	if 512 <= arfcn <= 885:
		ul = 1710200 + 200 * (arfcn - 512)
		return ul + 95000, ul
	if 128 <= arfcn <= 251:
		ul = 824200 + 200 * (arfcn - 128)
		return ul + 45000, ul
	raise ValueError(arfcn)


class TrxconLink:
	""" One interactive driver session + one real FakeTRX answering its commands. """

	def __init__(self, ctx, binary, seed):
		self.ctx = ctx
		self.bench = radio.Bench(seed, [{"base_port": 6700, "name": "MS"}, {"base_port": 5700, "name": "BTS"}])
		self.node = self.bench.nodes[0]
		self.sess = cbuild.Session(binary)
		self.log = []
		out = self.sess.op("N 0", ("n ",))
		if out is None or not out[-1].startswith("n 1"):
			raise common.HarnessError("trx_if_open failed in the driver")

	def phy(self, text):
		""" Issue one PHYIF command; relay every emitted TRXC command to the
		    FakeTRX and its reply back.  Returns (rc, [(cmd text, reply text, r-line fields, extra lines)]) """
		out = self.sess.op("K " + text, ("k ",))
		if out is None:
			return None, []
		rc = int(out[-1].split()[1])
		self.log.append("PHYIF %s -> %d" % (text[:60], rc))
		exch = []
		if rc != 0:
			# refused by trx_if.c: nothing may have been put on the wire
			out = self.sess.op("c", ("c ",))
			if out is None:
				return None, exch
			self.emitted_although_refused = [bytes.fromhex(l[2:]) for l in out if l.startswith("C ") and l[2:] != "-"]
			return rc, exch
		for _ in range(8):
			out = self.sess.op("c", ("c ",))
			if out is None:
				return None, exch
			cmds = [bytes.fromhex(l[2:]) for l in out if l.startswith("C ") and l[2:] != "-"]
			if not cmds:
				break
			for c in cmds:
				# through vnet, honouring the receive buffer size of the Python side
				rsp = self.node.ctrl_raw(c)
				self.log.append("  %r -> %r" % (c[:50], [x[:50] for x in rsp]))
				if len(rsp) != 1:
					exch.append((c, None, None, []))
					continue
				out = self.sess.op("R " + rsp[0].hex(), ("r ",))
				if out is None:
					return None, exch
				exch.append((c, rsp[0], [int(x) for x in out[-1].split()[1:]], out[:-1]))
		return rc, exch

	def close(self):
		return self.sess.close()


def trxcon_matrix(ctx, binary, r, rounds):
	for rd in range(rounds):
		link = TrxconLink(ctx, binary, r.getrandbits(30))
		died = False

		def bad(what, **kw):
			ctx.violation("trxcon", dict(kw, log = link.log[-14:]), what = what)

		def run_phy(text, n_expected):
			nonlocal died
			rc, exch = link.phy(text)
			ctx.count("trxcon_phyif_commands")
			ctx.seen(hash(("phy", rd, text)))
			if rc is None:
				died = True
				return None
			if rc != 0:
				return rc, exch
			if len(exch) != n_expected:
				bad("trx_if.c emitted %d TRXC commands for PHYIF %s, expected %d" % (len(exch), text.split()[0], n_expected))
			for (c, rsp, rl, extra) in exch:
				ctx.count("trxcon_commands_roundtripped")
				if rsp is None:
					bad("the transceiver did not send exactly one reply to a command trxcon emitted", command = c[:80].decode(errors = "replace"))
					continue
				# r <rc> <state> <terminated> <queued> <powered>
				if rl[0] != 0 or rl[2] != 0:
					bad("trxcon's response parser does not accept the transceiver's reply (rc=%d, FSM terminated=%d)" % (rl[0], rl[2]),
						command = c[:80].decode(errors = "replace"), reply = rsp[:80].decode(errors = "replace"))
			return rc, exch

		try:
			# RESET -> POWEROFF + ECHO
			run_phy("RESET", 2)
			arfcn = r.choice((1, 62, 124, 0, 975, 1023, 512, 700, 885))
			res = run_phy("H0 %d" % arfcn, 2)
			dl, ul = arfcn_khz(arfcn)
			if res and res[0] == 0:
				t = link.node.trx
				if (getattr(t, "_rx_freq", None), getattr(t, "_tx_freq", None)) != (dl * 1000, ul * 1000):
					bad("after SETFREQ_H0 for ARFCN %d the transceiver is tuned to %r/%r Hz, expected %d/%d"
						% (arfcn, getattr(t, "_rx_freq", None), getattr(t, "_tx_freq", None), dl * 1000, ul * 1000))
			run_phy("SETSLOT %d %d" % (r.randrange(8), r.choice((1, 2, 3, 4, 5, 6))), 1)
			run_phy("SETTA %d" % r.choice((0, 1, 63, -1, -128, 127)), 1)
			# MEASURE: the level the toolkit reports must come out of trxcon's parser
			bts = link.bench.nodes[1]
			link.bench.cmd(1, "RXTUNE %d" % ul)
			link.bench.cmd(1, "TXTUNE %d" % dl)
			if r.random() < 0.5:
				link.bench.cmd(1, "POWERON")
			marfcn = r.choice((arfcn, 1, 512, 100))
			res = run_phy("MEASURE %d" % marfcn, 1)
			if res and res[0] == 0 and res[1] and res[1][0][1] is not None:
				c, rsp, rl, extra = res[1][0]
				p = trxc.parse_response(rsp)
				ms = [l for l in extra if l.startswith("M ")]
				if p is None or len(p[2]) != 2:
					bad("RSP MEASURE malformed", reply = rsp[:60].decode(errors = "replace"))
				elif len(ms) != 1 or ms[0].split()[1:] != [str(marfcn), p[2][1]]:
					bad("trxcon reports measurement %r for RSP MEASURE carrying ARFCN %d level %s" % (ms, marfcn, p[2][1]))
				else:
					ctx.count("trxcon_measure_results_parsed")
			run_phy("POWERON", 1)
			# SETFREQ_H1 -> SETFH with 1..64 channels, the longest trxcon can encode
			band = r.choice(("P900", "DCS", "PCS"))
			base = 1 if band == "P900" else 512 if band == "DCS" else (0x8000 | 512)
			for want_n in (64, r.randint(1, 63), 1):
				n = want_n
				res = None
				while n >= 1:
					ma = sorted(r.sample(range(base, base + {"P900": 124, "DCS": 370, "PCS": 299}[band]), n))
					hsn, maio = r.randrange(64), r.randrange(n)
					res = run_phy("H1 %d %d %d %s" % (hsn, maio, n, " ".join(map(str, ma))), 1)
					if res is None or res[0] == 0:
						break
					n -= 1      # -ENOSPC: trxcon cannot encode that many channels in this band
				if res is None:
					break
				if res[0] != 0:
					bad("trxcon cannot encode even one hopping channel")
					continue
				ctx.count("trxcon_setfh_commands")
				ctx.extra["max_longest_setfh_channels_%s" % band] = max(ctx.extra.get("max_longest_setfh_channels_%s" % band, 0), n)
				# the transceiver must now hop over exactly the channels trxcon encoded
				t = link.node.trx
				wantma = [arfcn_khz(a) for a in ma]
				for _ in range(12):
					fn = r.randrange(trxd.HYPERFRAME)
					mai = hopping.mai(hsn, maio, n, fn)[0]
					got = (t.get_rx_freq(fn), t.get_tx_freq(fn))
					ctx.count("trxcon_setfh_frequency_probes")
					if got != (wantma[mai][0] * 1000, wantma[mai][1] * 1000):
						bad("after trxcon's SETFH with %d channels the transceiver does not hop over the channels trxcon encoded "
							"(frame %d: %r Hz, expected %r)" % (n, fn, got, (wantma[mai][0] * 1000, wantma[mai][1] * 1000)),
							channels_configured = len(getattr(getattr(t, "fh", None), "ma", [])))
						break
			# refused forms: an empty allocation, and one holding a channel number no band defines - an error code,
			# nothing on the wire, and the transceiver keeps the allocation it had
			t = link.node.trx
			before = [(t.get_rx_freq(f), t.get_tx_freq(f)) for f in range(0, 4000, 97)]
			for text in ("H1 %d 0 0" % r.randrange(64),
					"H1 %d 0 %d %s" % (r.randrange(64), 3, " ".join(map(str, r.sample((base + 3, base + 9, r.choice((126, 300, 900))), 3))))):
				link.emitted_although_refused = []
				res = run_phy(text, 0)
				if res is None:
					break
				ctx.count("trxcon_setfh_refused_forms")
				if res[0] >= 0:
					bad("trx_if.c accepts SETFREQ_H1 %r (rc=%d)" % (text, res[0]))
				elif link.emitted_although_refused:
					bad("trx_if.c refuses SETFREQ_H1 %r (rc=%d) but sent %r" % (text, res[0], link.emitted_although_refused[0][:60]))
				elif [(t.get_rx_freq(f), t.get_tx_freq(f)) for f in range(0, 4000, 97)] != before:
					bad("a refused SETFREQ_H1 changed the transceiver's hopping sequence")
			run_phy("POWEROFF", 1)
		finally:
			rc, err = link.close()
		if died or rc != 0:
			rep = cbuild.sanitizer_summary(err.encode())
			ctx.violation("trxcon", {"log": link.log[-14:], "stderr": err[-1500:]},
				what = "trx_if.c driver died while handling the transceiver's replies (rc=%s): %s" % (rc, rep or "no sanitizer report"))


def run(ctx):
	ctx.rule = ("(A) random command sequences (every verb incl. unknown ones, argument counts 0..9 and long SETFH lists up to 130 "
		"arguments, integers at range bounds, 2^31, 2^63) against 2-3 real FakeTRX in random prior states, sent from the configured "
		"remote and from another port, with non-CMD datagrams interleaved and behavioural probe bursts; (B) the full PHYIF command "
		"matrix of the real trx_if.c answered by a real FakeTRX, replies fed to the real trx_ctrl_read_cb; distinct = distinct "
		"(sequence, position, command text) / PHYIF commands; all non-trivial")
	ctx.assume("well-formed commands only: tokens separated by single spaces, integer-literal arguments; HSN/MAIO inside 0..63, "
		"FAKE_TOA/FAKE_CI thresholds >= 0 (hostile forms belong to C14)")
	r = ctx.rng("c05")
	VT[0] = sim.ctrl_if_time_virtual()      # FAKE_TRXC_DELAY makes ctrl_if sleep before replying: on virtual time
	for i in range(ctx.scale(1500, 100000)):
		with common.case_watchdog(ctx, "sequence", {"case": i}, first = 60, second = 60):
			sequence(ctx, ctx.case_rng("sequence", i), i)
		ctx.count("sequences")
		if ctx.too_many() or ctx.time_left() < 0:
			break
	ctx.current_case = None
	VT[0] = None
	sim.restore_time()
	bd = cbuild.BuildDir("c05")
	try:
		binary = cbuild.build_trxif(bd)
		trxcon_matrix(ctx, binary, r, ctx.scale(40, 2000))
	finally:
		bd.remove()
	ctx.require("commands", 5000)
	ctx.require("non_cmd_datagrams", 100)
	ctx.require("state_comparisons", 5000)
	ctx.require("probe_deliveries", 200)
	ctx.require("trxcon_commands_roundtripped", 200)
	ctx.require("trxcon_setfh_frequency_probes", 200)
	ctx.require("trxcon_measure_results_parsed", 10)


def replay(ctx, data):
	if common.replay_case(ctx, data, {"sequence": sequence}):
		return
	ctx.rule = "replay: no case coordinates in the witness; rerunning the check with the recorded seed"
	ctx.seed = data.get("seed", 0)
	run(ctx)

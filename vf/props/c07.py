# C07 - Frequency hopping follows 3GPP TS 45.002 6.2.3 in simulator and firmware.
#
# Three-way differential at run time: Python HoppingParams.resolve (and the
# simulator's get_rx_freq/get_tx_freq after a real CMD SETFH), the firmware's
# rfch_get_params() (real rfch.c, ASan+UBSan) and vf/ref/hopping.py.

import os

from vf import common, cbuild
from vf.ref import hopping

SHARDS = {"quick": 16, "thorough": 16}
VARIANTS = {"quick": 1, "thorough": 4}
WATCHDOG = {"quick": 600, "thorough": 3000}

FULL_N_QUICK = {1, 2, 3, 4, 5, 7, 8, 9, 15, 16, 17, 31, 32, 33, 63, 64}
PER_N = 64 * 26 * 51


def build(ctx):
	bd = cbuild.attach("c07")
	inc = cbuild.firmware_includes(bd)
	binary = cbuild.compile_link(bd, "hop_drv",
		[os.path.join(cbuild.CDIR, "drivers/hop_drv.c"),
		 os.path.join(cbuild.FW, "layer1/rfch.c"),
		 os.path.join(cbuild.LIBOSMO, "src/gsm/gsm_utils.c")],
		includes = inc, cflags = cbuild.GC[0], ldflags = cbuild.GC[1])
	return bd, binary


def prepare(ctx):
	""" Parent: build the driver once and dump the firmware's answers for the
	    complete reduced space (5.4 M points, < 1 s). """
	bd, binary = build(ctx)
	nv = VARIANTS[ctx.tier]
	script = "".join("E 1 64 %d\n" % v for v in range(nv)).encode()
	rc, out, err = cbuild.run_patient(binary, script, timeout = 200)
	if rc != 0 or len(out) != nv * 64 * PER_N:
		rep = cbuild.sanitizer_summary(err)
		if rc == "hang":
			ctx.violation("firmware-enum", {"note": "enumeration of the reduced space normally takes about a second"},
				what = "rfch.c does not terminate: the enumeration did not finish within 200 s, twice")
		elif rep:
			ctx.violation("firmware-enum", {"stderr": err.decode(errors = "replace")[-2000:]},
				what = "sanitizer report / crash in rfch.c during enumeration: %s" % rep)
		else:
			ctx.inconclusive_because("hop_drv enumeration failed rc=%s len=%d %s" % (rc, len(out), err[-300:]))
		return
	with open(os.path.join(bd.path, "enum.bin"), "wb") as f:
		f.write(out)
	ctx.count("firmware_points_enumerated", len(out))


def py_resolve(hp_cls, hsn, maio, n, fn, ma):
	return hp_cls(hsn, maio, ma[:n]).resolve(fn)


def run(ctx):
	common.use_toolkit()
	import gsm_shared
	HP = gsm_shared.HoppingParams
	ctx.rule = ("reduced space (x = HSN xor T1R in 0..63 with HSN != 0, T2 0..25, T3 0..50, N 1..64; one real "
		"(HSN, MAIO, FN) per point) enumerated against firmware rfch_get_params, Python HoppingParams.resolve and the "
		"reference, completely in both tiers (thorough: four different (HSN, MAIO, T1) representatives per point); plus HSN=0 and "
		"random full-range points, plus points through CMD SETFH on a real FakeTRX; distinct = distinct (hsn,maio,n,fn); "
		"non-trivial = every point (each has its own residues)")
	bd = cbuild.attach("c07")
	enum_path = os.path.join(bd.path, "enum.bin")
	binary = os.path.join(bd.path, "hop_drv")
	if not os.path.exists(enum_path):
		ctx.inconclusive_because("firmware enumeration missing")
		return
	with open(enum_path, "rb") as f:
		fw = f.read()
	ma = list(range(512, 512 + 64))
	r = ctx.rng("c07")
	branch_by_n = {}
	complete = True
	for v, n in [(v, n) for v in range(VARIANTS[ctx.tier]) for n in range(1, 65)]:
		if not ctx.mine(n + v):
			continue
		full = True
		base = (v * 64 + n - 1) * PER_N
		man = ma[:n]
		taken = 0
		idx = 0
		phase = r.randrange(20)
		for x in range(64):
			for t2 in range(26):
				for t3 in range(51):
					i = idx
					idx += 1
					if not full and (i % 20) != phase:
						continue
					hsn, maio, fn = hopping.reduced_point(n, x, t2, t3, v)
					ref, dev = hopping.mai(hsn, maio, n, fn)
					taken += dev
					c = fw[base + i]
					p = HP(hsn, maio, man).resolve(fn) - 512
					ctx.evaluations += 1
					if c != ref or p != ref:
						bad(ctx, "reduced", hsn, maio, n, fn, ref, p, c, dev)
						if ctx.too_many():
							return
		ctx.count("points_reduced", idx if full else idx // 20)
		ctx.count("deviation_branch_points", taken)
		branch_by_n[n] = branch_by_n.get(n, 0) + taken
		if taken == 0:
			ctx.inconclusive_because("N=%d never took the deviation branch" % n)
		# each (n,x,t2,t3) maps to its own (hsn,maio,n,fn): distinct by construction
		ctx.distinct_extra += idx if full else sum(1 for i in range(idx) if i % 20 == phase)
	ctx.extra["deviation_branch_points_by_N"] = {str(k): v for k, v in sorted(branch_by_n.items())}
	ctx.exhaustive = complete

	# HSN = 0 (cyclic) and random full-range points through the P mode
	pts = []
	for _ in range(ctx.scale(20000, 400000)):
		hsn = 0 if r.random() < 0.3 else r.randrange(64)
		n = r.choice((1, 2, 3, 7, 8, 63, 64)) if r.random() < 0.3 else r.randint(1, 64)
		maio = r.randrange(64)
		if r.random() < 0.3:
			fn = r.choice((0, 1, 25, 26, 50, 51, 1325, 1326, 1327, 84863, 84864, 2715647, 2715646,
				2715648 - 1326, 63 * 1326, 64 * 1326 - 1, 64 * 1326))
		else:
			fn = r.randrange(2715648)
		pts.append((hsn, maio, n, fn))
	# the firmware's ARFCN numbering carries a band bit (0x8000, PCS 1900) and an uplink bit (0x4000): "the selected
	# channel is MA[MAI]" whatever the entries look like
	flags = [r.choice((0, 0, 0x8000, 0x4000, 0xc000)) for _ in pts]
	script = "".join("P %d %d %d %d %d\n" % (p + (f,)) for p, f in zip(pts, flags)).encode()
	rc, out, err = cbuild.run(binary, script, timeout = 300)
	lines = out.decode().split()
	if rc != 0 or len(lines) != 2 * len(pts):
		rep = cbuild.sanitizer_summary(err)
		if rep:
			ctx.violation("firmware-points", {"stderr": err.decode(errors = "replace")[-2000:]},
				what = "sanitizer report / crash in rfch.c: %s" % rep)
		else:
			ctx.inconclusive_because("hop_drv P mode failed rc=%s" % rc)
		return
	for k, (hsn, maio, n, fn) in enumerate(pts):
		ref, dev = hopping.mai(hsn, maio, n, fn)
		got = int(lines[2 * k + 1])
		c = (got & 0x3fff) - 512 if (got & 0xc000) == flags[k] else -1000 - got
		if flags[k]:
			ctx.count("points_with_band_or_uplink_bits")
		p = HP(hsn, maio, ma[:n]).resolve(fn) - 512
		ctx.seen(hash((hsn, maio, n, fn)))
		ctx.count("points_random")
		if hsn == 0:
			ctx.count("points_hsn0")
		if k < 3:
			ctx.sample("point", {"hsn": hsn, "maio": maio, "n": n, "fn": fn, "mai_ref": ref,
				"mai_python": p, "mai_firmware": c, "deviation_branch": dev})
		if c != ref or p != ref:
			bad(ctx, "random", hsn, maio, n, fn, ref, p, c, dev)
			if ctx.too_many():
				return
	trxc_path(ctx, r)
	ctx.require("points_reduced", 1000)
	ctx.require("points_random", 1000)
	ctx.require("points_hsn0", 100)
	ctx.require("setfh_points", 50)


def bad(ctx, sub, hsn, maio, n, fn, ref, p, c, dev):
	who = []
	if p != ref:
		who.append("python")
	if c != ref:
		who.append("firmware")
	mech = None
	ctx.violation(sub, {"hsn": hsn, "maio": maio, "n": n, "fn": fn, "mai_ref": ref,
		"mai_python": p, "mai_firmware": c, "deviation_branch": dev}, mechanism = mech,
		what = "%s disagree(s) with TS 45.002 6.2.3%s" % (" and ".join(who),
			" (deviation branch M' >= N)" if dev else ""))


def trxc_path(ctx, r):
	""" A sample of points through the real control interface and the
	    simulator's per-frame frequency resolution. """
	from vf import sim
	w = sim.World(ctx.seed)
	node = w.add("127.0.0.1", 5700)
	prev = None
	for _ in range(ctx.scale(300, 6000)):
		if prev is not None and r.random() < 0.4:
			# configured again with the same HSN, MAIO and number of channels, but other channels
			hsn, maio, n = prev
			ctx.count("setfh_reconfigured_same_shape")
		else:
			hsn = r.randrange(64)
			n = r.randint(1, 64)
			maio = r.randrange(n)
		prev = (hsn, maio, n)
		rx = r.sample(range(800000, 990000, 200), n)
		k = r.random()
		if k < 0.5:
			rx.sort()
		elif k < 0.7:
			# the order of the Mobile Allocation is the order given (e.g. ARFCN 0 / E-GSM channels come last)
			rx.sort()
			cut = r.randrange(n)
			rx = rx[cut:] + rx[:cut]
		tx = [f + 45000 for f in rx]
		cmd = "SETFH %d %d %s" % (hsn, maio, " ".join("%d %d" % (a, b) for a, b in zip(rx, tx)))
		rsp = node.ctrl_raw(("CMD " + cmd + "\0").encode())
		if len(rsp) != 1 or not rsp[0].startswith(b"RSP SETFH 0 "):
			# long SETFH handling belongs to C05; do not judge it here
			ctx.count("setfh_not_acknowledged")
			continue
		fh = getattr(node.trx, "fh", None)
		if fh is None or not hasattr(fh, "ma") or len(fh.ma) != n:
			# acknowledged with status 0, yet the transceiver does not hop over the n channels given
			# (the 128-octet truncation that once explained this was repaired in 026a604)
			ctx.violation("setfh", {"cmd": cmd[:400], "channels_given": n,
				"channels_configured": None if fh is None or not hasattr(fh, "ma") else len(fh.ma)},
				what = "CMD SETFH with %d channels is acknowledged, but the simulator %s" % (n,
					"has no hopping configured" if fh is None else "hops over another number of channels"))
			if ctx.too_many():
				return
			continue
		for _ in range(8):
			fn = r.randrange(2715648)
			ref, dev = hopping.mai(hsn, maio, n, fn)
			got = (node.trx.get_rx_freq(fn), node.trx.get_tx_freq(fn))
			ctx.count("setfh_points")
			ctx.seen(hash(("setfh", hsn, maio, n, fn)))
			if got != (rx[ref] * 1000, tx[ref] * 1000):
				ctx.violation("setfh", {"cmd": cmd, "fn": fn, "got_hz": got,
					"expected_hz": (rx[ref] * 1000, tx[ref] * 1000), "deviation_branch": dev},
					what = "simulator frequency after CMD SETFH differs from MA[MAI] of the standard")
				if ctx.too_many():
					return


def finalize(ctx):
	pass


def cleanup(ctx):
	cbuild.attach("c07").remove()


def replay(ctx, data):
	common.use_toolkit()
	import gsm_shared
	w = data["witness"]
	ctx.rule = "replay of one recorded point (Python and firmware)"
	if "cmd" in w:
		ctx.inconclusive_because("SETFH witnesses are replayed by re-running the check with the same seed")
		return
	bd, binary = build(ctx)
	try:
		hsn, maio, n, fn = w["hsn"], w["maio"], w["n"], w["fn"]
		rc, out, err = cbuild.run(binary, ("P %d %d %d %d\n" % (hsn, maio, n, fn)).encode())
		c = int(out.split()[1]) - 512
		ref, dev = hopping.mai(hsn, maio, n, fn)
		p = gsm_shared.HoppingParams(hsn, maio, list(range(512, 512 + n))).resolve(fn) - 512
		ctx.seen(1); ctx.seen(2)
		print("ref=%d python=%d firmware=%d" % (ref, p, c))
		if c != ref or p != ref:
			bad(ctx, "replay", hsn, maio, n, fn, ref, p, c, dev)
	finally:
		bd.remove()

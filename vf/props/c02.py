# C02 - Virtual Um routing: bursts reach exactly the tuned, running peers.
#
# History monitor: transceivers are configured by TRXC commands only; the
# shadow model (vf/ref/trxc.py + vf/ref/hopping.py) says which L1 DATA
# endpoints must receive each transmitted burst; the datagrams observed on
# vnet after the tick are compared with it (exactly once per recipient).

from vf import common, radio, sim
from vf.ref import trxd

SHARDS = {"quick": 1, "thorough": 16}

PORTS = [5700, 6700, 7700, 8700, 9700, 10700]


def build_direct(r):
	n = r.randint(2, 6)
	specs = []
	parents = []
	for i in range(n):
		if parents and r.random() < 0.35:
			p = r.choice(parents)
			idx = 1 + sum(1 for s in specs if s.get("child_of") == p)
			specs.append({"base_port": specs[p]["base_port"], "child_of": p, "child_idx": idx, "name": "T%d/%d" % (p, idx)})
		else:
			specs.append({"base_port": PORTS[len(parents)], "name": "T%d" % i,
				"child_mgt": r.random() < 0.7})
			parents.append(i)
	return radio.Bench(r.getrandbits(30), specs), None


def build_app(r):
	argv = ["-b", "127.0.0.1"]
	extra = []
	nextra = r.randint(0, 4)
	bases = {"BTS": 5700, "MS": 6700}
	pool = [("127.0.0.1", 5700), ("127.0.0.1", 6700)]
	child_count = {}
	for k in range(nextra):
		if r.random() < 0.6:
			addr, port = r.choice(pool)
			idx = child_count.get((addr, port), 0) + 1
			child_count[(addr, port)] = idx
			d = "%s:%d/%d" % (addr, port, idx)
		else:
			port = 7700 + 1000 * len([p for p in pool if p[1] >= 7700])
			pool.append(("127.0.0.1", port))
			d = "%s:%d" % ("127.0.0.1", port)
		if r.random() < 0.4:
			d = "x%d@%s" % (k, d)
		argv += ["--trx", d]
	aw = sim.AppWorld(argv, seed = r.getrandbits(30))
	return radio.Bench.from_app(aw), aw


def run_config(ctx, r, idx):
	use_app = r.random() < 0.35
	bench, aw = build_app(r) if use_app else build_direct(r)
	try:
		_run_config(ctx, r, idx, bench, use_app)
	finally:
		if aw is not None:
			aw.shutdown()


def _run_config(ctx, r, idx, bench, use_app):
	n = len(bench.models)
	names = [m.name for m in bench.models]
	# (a quarter of the configurations in the 1800 / 1900 MHz bands: seven-digit kHz values make a 64-channel SETFH longer
	# than 1024 octets)
	pool = r.sample(range(860000, 960000, 200) if r.random() < 0.75 else range(1710200, 1990000, 200), r.randint(3, 5))
	log = []

	def cmd(i, text):
		st, mst = bench.cmd(i, text)
		log.append("%s: %s -> %d" % (names[i], text[:70], st))
		if isinstance(mst, tuple):
			return True
		if st != mst:
			ctx.violation("config", {"history": log[-12:]},
				what = "%s answered %d, the TRXC model says %d" % (text.split(" ")[0], st, mst))
			return False
		return True

	def tune(i):
		if r.random() < 0.3:
			k = r.randint(1, min(8, len(pool)) if r.random() < .8 else 12)
			if r.random() < 0.12:
				k = r.choice((31, 32, 33, 63, 64))      # long mobile allocations (the mask of the hopping generator)
			ma = [(r.choice(pool), r.choice(pool)) for _ in range(k)]
			hsn = r.choice((0, 0, 1, 5, 63, r.randrange(64)))
			return cmd(i, "SETFH %d %d %s" % (hsn, r.randrange(64), " ".join("%d %d" % p for p in ma)))
		return cmd(i, "RXTUNE %d" % r.choice(pool)) and cmd(i, "TXTUNE %d" % r.choice(pool))

	# every transceiver is tuned before anything is powered on
	for i in range(n):
		if not (cmd(i, "RXTUNE %d" % r.choice(pool)) and cmd(i, "TXTUNE %d" % r.choice(pool))):
			return
		if not cmd(i, "SETFORMAT %d" % r.choice((0, 1))):
			return
	for i in range(n):
		if r.random() < 0.3 and not tune(i):
			return
	for i in range(n):
		if r.random() < 0.8:
			if not cmd(i, "POWERON"):
				return
	nb = r.randint(20, 60)
	fn = r.randrange(trxd.HYPERFRAME)
	uid = idx << 12
	for b in range(nb):
		x = r.random()
		i = r.randrange(n)
		if x < 0.06:
			if not cmd(i, "POWEROFF"):
				return
			# POWEROFF forgets hopping: fixed frequencies (already tuned) apply again
		elif x < 0.14:
			if not cmd(i, "POWERON"):
				return
		elif x < 0.24:
			if not tune(i):
				return
		elif x < 0.27:
			if not cmd(i, "RFMUTE %d" % r.choice((0, 1))):
				return
		elif x < 0.33 and x >= 0.30:
			# a power measurement on any carrier is not a re-tune
			if bench.models[i].has_pm:
				if bench.cmd(i, "MEASURE %d" % r.choice(pool))[0] is None:
					return
				ctx.count("measurements_between_bursts")
		elif x < 0.30:
			# also versions the transceiver does not support: answered with a suggestion, nothing applied
			if not cmd(i, "SETFORMAT %d" % r.choice((0, 1, 0, 1, 2, 3, 15))):
				return
		if r.random() < 0.08:
			# a late burst: its frame has passed, it is reported stale inside the next tick of its sender - and
			# that must not keep anybody else from being served in that tick
			x = r.randrange(n)
			if bench.models[x].running:
				late = {"dir": "tx", "ver": bench.models[x].ver, "fn": (fn - r.randint(1, 40)) % trxd.HYPERFRAME, "tn": r.randrange(8),
					"pwr": 0, "bits": trxd.rand_bits(r, 148)}
				bench.nodes[x].data_raw(trxd.encode(late))
				ctx.count("late_bursts_injected")
		# one burst from a random transceiver (running or not)
		s = r.randrange(n)
		# the same frame number is used again now and then (e.g. right after a re-tune: per-frame
		# state inside the simulator must not outlive a reconfiguration)
		fn = (fn + r.choice((0, 0, 1, 1, 2, 3, 26, 51, 1326))) % trxd.HYPERFRAME
		uid += 1
		bits = bytes((uid >> k) & 1 for k in range(40)) + trxd.rand_bits(r, 108)
		m = {"dir": "tx", "ver": bench.models[s].ver, "fn": fn, "tn": r.randrange(8),
		     "pwr": r.choice((0, 0, 5, 13)), "bits": bits}
		snd = bench.models[s]
		if snd.running and r.random() < 0.25:
			# the burst is queued a few frames ahead (as L1 does) and the configuration changes before
			# its frame comes: recipients are those tuned to the sender *in that frame*
			for nd in bench.nodes:
				nd.rx_data()
			far = r.choice((700, 5000, 100000, trxd.HYPERFRAME // 3)) if r.random() < 0.1 else 0
			fn = (fn + (far or r.randint(2, 6))) % trxd.HYPERFRAME
			m["fn"] = fn
			acc = bench.nodes[s].data_raw(trxd.encode(m)) is not None
			if far:
				# handed over long before its frame (less than half a hyperframe): it simply waits, whatever ticks come first
				bench.tick((fn - far + 1) % trxd.HYPERFRAME)
				bench.tick((fn - far // 2) % trxd.HYPERFRAME)
				ctx.count("bursts_queued_far_ahead")
			cleared = snd.queue_cleared
			for _ in range(r.randint(1, 3)):
				j = r.randrange(n)
				y = r.random()
				ok = tune(j) if y < 0.6 else cmd(j, "RFMUTE %d" % r.choice((0, 1))) if y < 0.75 \
					else cmd(j, "POWEROFF") if y < 0.85 else cmd(j, "POWERON")
				if not ok:
					return
			ctx.count("deferred_bursts")
			still = snd.running and snd.queue_cleared == cleared
			rcpt = bench.recipients(s, fn) if (acc and still) else []
			bench.tick(fn)
			got = {j: nd.rx_data() for j, nd in enumerate(bench.nodes)}
			deferred_lost = acc and not still
		else:
			deferred_lost = False
			rcpt = bench.recipients(s, fn) if snd.running else []
			acc, got = bench.transmit(s, m)
		ctx.count("bursts")
		if acc != snd.running and not deferred_lost:
			ctx.violation("accept", {"history": log[-12:], "sender": names[s], "running": snd.running},
				what = "burst %s by a transceiver that is %s" % ("accepted" if acc else "refused",
					"powered off" if not snd.running else "running"))
			return
		if snd.fh is not None:
			ctx.count("bursts_from_hopping_sender")
		for j in range(n):
			t = bench.models[j]
			if j == s:
				reason = "self"
			elif deferred_lost:
				reason = "sender_off"
			elif not snd.running:
				reason = "sender_off"
			elif not t.running:
				reason = "not_running"
			elif j not in rcpt:
				reason = "other_frequency"
			else:
				reason = "deliver"
			ctx.count("decision:%s" % reason)
			if t.fh is not None and reason in ("deliver", "other_frequency"):
				ctx.count("decisions_for_hopping_recipient")
			ctx.seen(hash((ctx.shard[0], idx, b, j)))
			if reason != "deliver":
				if got[j]:
					ctx.violation("routing", {"history": log, "burst": trxd.brief(m), "sender": names[s],
						"recipient": names[j], "why_not": reason,
						"sender_tx_hz": snd.tx_freq_hz(fn, radio.hop), "recipient_rx_hz": t.rx_freq_hz(fn, radio.hop)},
						what = "burst delivered to %s" % {"self": "its own sender", "sender_off": "a peer although the sender is powered off",
							"not_running": "a powered-off transceiver", "other_frequency": "a transceiver tuned elsewhere in that frame"}[reason])
					return
				continue
			e = radio.expected(snd, t, bench.budgets[j], m, bits)
			res = radio.check(e, got[j], bench.budgets[j])
			if isinstance(res, str):
				ctx.violation("routing", {"history": log, "burst": trxd.brief(m), "sender": names[s], "recipient": names[j],
					"sender_tx_hz": snd.tx_freq_hz(fn, radio.hop), "recipient_rx_hz": t.rx_freq_hz(fn, radio.hop),
					"datagrams": len(got[j])}, what = "tuned, running peer: " + res)
				return
			ctx.count("deliveries_confirmed")
	ctx.count("configs_app" if use_app else "configs_direct")
	ctx.count("config_size_%d" % n)
	if idx < 3:
		ctx.sample("config", {"transceivers": names, "via_application": use_app, "history_tail": log[-10:]})


def run(ctx):
	ctx.rule = ("2..6 real FakeTRX (built directly with parent/child links, or through the real fake_trx.Application with --trx "
		"definitions), frequencies from a pool of 3-5 values, hopping MAs over the pool (HSN 0 and pseudo-random), POWERON/POWEROFF, "
		"re-tuning while running, RFMUTE, SETFORMAT; every burst carries a unique id; per (burst, transceiver) the delivery decision "
		"is compared with the model; distinct = distinct (configuration, burst, transceiver) decisions; all non-trivial")
	ctx.assume("transceivers are tuned before they are powered on (an untuned child has no defined frequency)")
	for i in range(ctx.scale(500, 40000)):
		with common.case_watchdog(ctx, "config", {"case": i}, first = 60, second = 60):
			run_config(ctx, ctx.case_rng("config", i), i)
		if ctx.too_many() or ctx.time_left() < 0:
			break
	ctx.current_case = None
	sim.restore_time()
	for k in ("deliver", "self", "not_running", "other_frequency", "sender_off"):
		ctx.require("decision:%s" % k, 100)
	ctx.require("deliveries_confirmed", 500)
	ctx.require("bursts_from_hopping_sender", 100)
	ctx.require("decisions_for_hopping_recipient", 100)
	ctx.require("configs_app", 20)
	ctx.require("configs_direct", 20)
	ctx.require("deferred_bursts", 200)
	ctx.require("late_bursts_injected", 100)


def replay(ctx, data):
	if common.replay_case(ctx, data, {"config": run_config}):
		return
	ctx.rule = "replay: no case coordinates in the witness; rerunning the check with the recorded seed"
	ctx.seed = data.get("seed", 0)
	run(ctx)

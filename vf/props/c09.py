# C09 - Clock source: consecutive frame numbers, one per frame, no accumulated drift.
#
# The real CLCKGen (start/stop/_worker/send_clck_ind) runs in its real thread
# on a virtual monotonic clock; the trace of (fn, virtual time, payloads on the
# clock links) is checked against the deadline recurrence of the statement.

import logging
import math
import threading

from vf import common, sim, vclock, vnet

SHARDS = {"quick": 1, "thorough": 16}
HYPER = 2715648
NOMINAL_NS = 4615000
TOL_NS = 2          # float <-> ns conversions inside clck_gen / the fake Event


class Run:
	def __init__(self, world, start_fn, period, nlinks, nticks, hdur, lat, origin = 1_000_000_000):
		# the origin of a monotonic clock is unspecified: a host that has been up for more than 104 days reads more than
		# 2^53 ns, beyond what a float holds exactly.  Deadlines are still compared exactly, except that one rounding of
		# a float number of seconds at that origin is tolerated per tick - never a growing one
		self.vt = vclock.VTime(origin)
		self.origin = origin
		self.tol = TOL_NS if origin < 2 ** 53 else max(TOL_NS, int(2 * math.ulp(origin * 1e-9) * 1e9) + 1)
		sim.clck_gen.time = self.vt
		self.links = []
		self.eps = []
		for i in range(nlinks):
			port = 9000 + 10 * i
			self.eps.append(world.net.endpoint("127.0.0.1", port + 100))
			self.links.append(sim.udp_link.UDPLink("127.0.0.1", port + 100, "127.0.0.1", port))
		self.gen = sim.clck_gen.CLCKGen(list(self.links), clck_start = start_fn, ind_period = period)
		self.attached = set(range(nlinks))
		self.link_script = {}
		self.start_fn = start_fn
		self.period = period
		self.hdur = hdur          # k -> handler duration (ns)
		self.lat = lat            # k -> wake-up latency (ns)
		self.nticks = nticks
		self.trace = []           # (fn, t, [payloads per link])
		self.gen.clck_handler = self.handler

	def handler(self, fn):
		k = len(self.trace)
		if k > self.nticks + 20:
			# the worker has served more ticks than it was given waits for: it does not consult its stop event between
			# ticks (stop() could not end it).  From here on the handler returns at once and the next wait() parks.
			if not getattr(self, "runaway", 0) and not getattr(self, "poller", False):
				ev = getattr(self, "ev", None)
				if ev is not None and ev.polls - ev.polls_at_last_wait >= 10:
					# it does consult the event - by polling is_set() instead of waiting: this harness cannot park such a
					# worker at a chosen tick, the run decides nothing
					self.poller = True
					ev.set()
					return
				self.runaway = k
				if ev is not None:
					ev.stop_after = ev.waits
			if k > self.nticks + 100000:
				raise SystemExit      # ends the clock thread: nothing else can
			return
		got = [[d for d, _ in ep.take_all()] for ep in self.eps]
		self.trace.append((fn, self.vt.now, got, tuple(self.attached)))
		# the set of clock links changes while the generator runs (transceivers power on and off)
		ch = self.link_script.get(k)
		if ch is not None:
			op, i = ch
			links = self.gen.clck_links
			if op == "del" and self.links[i] in links:
				links.remove(self.links[i])
				self.attached.discard(i)
			elif op == "add" and self.links[i] not in links:
				links.append(self.links[i])
				self.attached.add(i)
		self.vt.now += self.hdur(k)

	def go(self):
		""" One start() ... stop() cycle of the real generator.  The harness event is put in place once and kept
		    across restarts (as the generator keeps its own); the worker parks in wait() after nticks ticks and it
		    is the real stop() that has to end it: set the event, join, clear the event. -> error text or None """
		import time as _t
		ev = getattr(self, "ev", None)
		if ev is None:
			ev = vclock.VEvent(self.vt, gated = False, stop_after = self.nticks, latency = self.lat)
			ev.park_at_end = True
			self.ev = ev
			if not vclock.attach(sim.clck_gen, self.gen, self.vt, ev):
				raise common.HarnessError("cannot identify the clock generator's stop event")
		else:
			ev.stop_after = ev.waits + self.nticks
			ev.latency = self.lat_shifted(ev.waits)
		self.t_start = self.vt.now
		before = {id(v) for v in vars(self.gen).values() if isinstance(v, threading.Thread)}
		self.gen.start()
		th = next((v for v in vars(self.gen).values() if isinstance(v, threading.Thread)), None)
		if th is None:
			raise common.HarnessError("cannot find the clock generator's thread")
		t0 = _t.time()
		with ev.cond:
			while not ev.parked and th.is_alive() and _t.time() - t0 < 600:
				ev.cond.wait(0.05)
				if ev.entered == 0 and _t.time() - t0 > 5:
					break      # the generator never came to the harness event: not attached
		if not ev.parked:
			if not th.is_alive():
				# the worker left on its own: the event was still set from the previous stop(), or it crashed
				self.gen.stop()
				return "the clock thread ended by itself after %d of %d ticks%s" % (len(self.trace), self.nticks,
					(": " + sim.THREAD_ERRORS[-1]) if sim.THREAD_ERRORS else " (stop event still set from the previous stop()?)")
			ev.set()
			th.join(5)
			self.gen.stop()
			return "hung"
		# now the real stop()
		stopper = threading.Thread(target = self.gen.stop, daemon = True)
		stopper.start()
		stopper.join(30)
		if stopper.is_alive():
			signalled = ev.flag
			ev.set()
			stopper.join(10)
			return "stop() does not return: the worker is parked in wait() and the stop event was %s" % (
				"set, but the thread was not joined" if signalled else "never set")
		if th.is_alive():
			# stop() returned although the worker still exists
			th.join(2)
			if th.is_alive():
				ev.set()
				th.join(5)
				ev.clear()
				return "stop() returned while the clock thread was still alive (it is not joined / was not told to stop)"
		if ev.flag:
			ev.clear()
			return "the stop event is still set after stop(): the next start() would end at once"
		return None

	def lat_shifted(self, base):
		lat = self.lat
		return lambda k: lat(k - base)


def check_trace(ctx, run, T, desc, restarted = False):
	""" The deadline recurrence of the statement, evaluated on the trace. """
	tr = run.trace
	if getattr(run, "runaway", 0):
		return ("the generator served %d ticks although it was given %d waits: it does not consult its stop event on every tick "
			"(with handlers that take a frame period or longer stop() cannot end it)" % (run.runaway, run.nticks))
	if len(tr) != run.nticks:
		return "handler called %d times for %d ticks" % (len(tr), run.nticks)
	d = run.t_start + T
	worst = 0
	for k, (fn, t, got, attached) in enumerate(tr):
		want_fn = (run.start_fn + k) % HYPER
		if fn != want_fn:
			return "tick %d carries fn %d, expected %d%s" % (k, fn, want_fn,
				" (first tick after stop()/start())" if restarted and k == 0 else "")
		if fn == 0 and k > 0:
			ctx.count("hyperframe_wraps")
		lat = run.lat(k)
		if not (d - run.tol <= t <= d + lat + run.tol):
			early = t < d - run.tol
			return ("tick %d at virtual time %+d ns relative to its deadline (allowed 0..%d): %s" % (k, t - d, lat,
				"fired early (catch-up burst / deadline derived from the wrong base)" if early else
				"fired late (handler time or earlier latencies accumulate)"))
		worst = max(worst, abs(t - d - lat))
		want = [b"IND CLOCK %d\0" % fn] if fn % run.period == 0 else []
		for li, g in enumerate(got):
			w_li = want if li in attached else []
			if g != w_li:
				return "tick fn=%d: link %d (%s) received %r, expected %r" % (fn, li,
					"attached" if li in attached else "detached", g[:3], w_li)
		if want:
			ctx.count("indications_checked", len(got))
		e = t + run.hdur(k)
		if e <= d + T:
			d = d + T
		else:
			d = e
			ctx.count("overruns")
		ctx.count("ticks")
	ctx.extra["max_abs_tick_error_ns"] = max(ctx.extra.get("max_abs_tick_error_ns", 0), worst)
	return None


def calibrate(ctx, world):
	""" Tick period of the running code, measured: t_1 - t_0 with idle handlers. """
	run = Run(world, 0, 102, 0, 4, lambda k: 0, lambda k: 0)
	err = run.go()
	ok = err is None
	if getattr(run, "poller", False):
		raise common.HarnessError("the clock generator polls its stop event instead of waiting on it: the harness cannot count its ticks off")
	if err and err != "hung" and (run.vt.calls == 0 or run.ev.waits == 0):
		# not an attachment problem: the worker thread was started by the real start() and ended (or never ran)
		ctx.violation("calibrate", {"trace": run.trace}, what = "clock generator does not tick: " + err)
		return None
	if run.vt.calls == 0 or run.ev.waits == 0:
		# the generator does not read the harness clock / wait on the harness event: nothing can be decided
		raise common.HarnessError("virtual clock could not be attached to clck_gen (time source or breaker event changed)")
	if not ok or len(run.trace) != 4:
		ctx.violation("calibrate", {"trace": run.trace}, what = "clock generator did not deliver 4 ticks and stop cleanly%s" % (
			"" if err in (None, "hung") else ": " + err))
		return None
	T = run.trace[1][1] - run.trace[0][1]
	first = run.trace[0][1] - run.t_start
	ctx.extra["tick_period_ns_measured"] = T
	if abs(T - NOMINAL_NS) > 1000:
		ctx.violation("calibrate", {"period_ns": T}, what = "tick period differs from 4.615 ms by more than 1 us")
		return None
	if abs(first - T) > TOL_NS:
		ctx.violation("calibrate", {"first_tick_after_ns": first, "period_ns": T},
			what = "first tick does not occur one frame period after start")
		return None
	return T


def pattern(r, T):
	k = r.randrange(9)
	if k == 0:
		return "zero", (lambda i: 0)
	if k == 1:
		# (overruns of less than a microsecond included: an overrun is an overrun)
		c = r.choice((T // 2, int(0.99 * T), T - 1, T, T + 1, T + 500, T + 999, T + 1000, int(1.01 * T), 3 * T, int(2.5 * T)))
		return "const %d" % c, (lambda i, c = c: c)
	if k == 2:
		a, b = r.choice(((0, 2 * T), (T // 2, int(1.5 * T)), (T, T + 1), (0, T), (0, T + 300), (T + 700, T // 3)))
		return "alternating %d/%d" % (a, b), (lambda i, a = a, b = b: a if i % 2 == 0 else b)
	if k == 3:
		at = r.randrange(1, 200)
		ln = r.choice((2, 3, 10, 50)) * T + r.randrange(T)
		return "one stall of %d at %d" % (ln, at), (lambda i, at = at, ln = ln: ln if i == at else r_const(i))
	if k == 4:
		seed = r.getrandbits(32)
		return "random<T seed %d" % seed, (lambda i, s = seed: (hash((s, i)) % 1000) * (T - 1) // 1000)
	if k == 5:
		seed = r.getrandbits(32)
		return "random<3T seed %d" % seed, (lambda i, s = seed: (hash((s, i)) % 3000) * T // 1000)
	if k == 6:
		seed = r.getrandbits(32)
		return "mostly short, 5%% long, seed %d" % seed, (lambda i, s = seed: (2 * T + hash((s, i)) % T) if hash((s, i, 1)) % 20 == 0 else hash((s, i)) % (T // 3))
	if k == 7:
		return "exactly T", (lambda i: T)
	return "ramp", (lambda i: (i % 40) * T // 20)


def r_const(i):
	return 100000


def run(ctx):
	ctx.rule = ("runs of 300-5000 ticks of the real CLCKGen thread under a virtual clock: handler-duration patterns (0, 0.5T, 0.99T, T-1, T, "
		"T+1, 1.01T, 3T, alternating, random, single long stall, ramp), wake-up latencies 0..200 us, clock origins 1 s and 2^53..2^62 ns, start frames incl. 2715646/2715647, "
		"indication periods {1,2,51,102,1000}, 0..3 clock links, plus stop()/start() restarts; distinct = distinct run descriptors "
		"(pattern, latencies, start, period, links, length); all non-trivial")
	ctx.assume("virtual time replaces time.monotonic_ns and Event.wait of clck_gen only; time is frozen while clck_gen's own code runs")
	world = sim.World(ctx.seed)
	T = calibrate(ctx, world)
	if T is None:
		ctx.seen(1); ctx.seen(2)
		return
	r = ctx.rng("c09")
	nruns = ctx.scale(1000, 32000)
	for i in range(nruns):
		start_fn = r.choice((0, 1, 101, 102, HYPER - 2, HYPER - 1, HYPER - 150, r.randrange(HYPER)))
		period = r.choice((1, 2, 51, 102, 102, 1000))
		nlinks = r.randrange(4)
		nticks = r.choice((300, 300, 700, 1500)) if ctx.tier == "quick" else r.choice((300, 1000, 5000))
		pname, hdur = pattern(r, T)
		lmode = r.randrange(3)
		lseed = r.getrandbits(32)
		lat = (lambda k: 0) if lmode == 0 else (lambda k, s = lseed: hash((s, k)) % 200000) if lmode == 1 \
			else (lambda k, s = lseed: 150000 if hash((s, k)) % 7 == 0 else 0)
		origin = 1_000_000_000 if r.random() < 0.6 else r.choice((2 ** 53 - 100 * T, 2 ** 53 + 12345, 2 ** 55 + 1, 2 ** 56 + 7,
			2 ** 58 + 999, 2 ** 60 + 3, 2 ** 62 + 1))
		if origin > 2 ** 52:
			ctx.count("runs_with_clock_origin_beyond_2^53_ns")
		desc = {"start_fn": start_fn, "ind_period": period, "links": nlinks, "ticks": nticks, "handler": pname, "clock_origin_ns": origin,
			"latency": ["none", "random 0..200us", "150us on 1/7 of the wake-ups"][lmode]}
		ctx.seen(common.h64(desc))
		rn = Run(world, start_fn, period, nlinks, nticks, hdur, lat, origin)
		# the application's default log level is DEBUG: the generator's debug statements are then executed on every tick
		debug_log = r.random() < 0.4
		logging.getLogger().setLevel(logging.DEBUG if debug_log else logging.WARNING)
		desc["log_level"] = "DEBUG" if debug_log else "WARNING"
		if debug_log:
			ctx.count("runs_at_debug_log_level")
		if nlinks and r.random() < 0.3:
			for _ in range(r.randint(1, 6)):
				rn.link_script[r.randrange(nticks)] = (r.choice(("add", "del")), r.randrange(nlinks))
			desc["links_change_while_running"] = len(rn.link_script)
			ctx.count("runs_with_changing_links")
		err = rn.go()
		if getattr(rn, "poller", False):
			ctx.inconclusive_because("the generator polls its stop event instead of waiting on it: ticks cannot be counted off by the harness")
			break
		if err:
			ctx.violation("run", desc, what = "clock thread did not finish %d ticks (hung)" % nticks if err == "hung" else err)
			continue
		what = check_trace(ctx, rn, T, desc)
		ctx.count("runs")
		if i < 3:
			ctx.sample("run", dict(desc, first_ticks = [(x[0], x[1] - rn.t_start) for x in rn.trace[:4]]))
		if what:
			ctx.violation("run", dict(desc, trace_head = [(x[0], x[1] - rn.t_start) for x in rn.trace[:6]]), what = what)
			if ctx.too_many():
				break
			continue
		# stop()/start(): restart from the start frame, deadlines relative to the new start
		if r.random() < 0.3:
			for cycle in range(r.choice((1, 2, 3))):
				rn.trace = []
				rn.nticks = r.choice((3, 50, 150))
				if r.random() < 0.5:
					# the start frame is configured anew between two runs
					rn.start_fn = r.choice((0, 5, 101, HYPER - 1, HYPER - 60, r.randrange(HYPER)))
					rn.gen.clck_start = rn.start_fn
					ctx.count("restarts_with_new_start_frame")
				if r.random() < 0.3:
					# a second stop() in a row (the generator is not running) must not disturb the next start()
					rn.gen.stop()
					ctx.count("redundant_stops")
				err = rn.go()
				if err:
					ctx.violation("restart", desc, what = ("clock thread hung after stop()/start() number %d" % (cycle + 1)) if err == "hung"
						else "stop()/start() number %d: %s" % (cycle + 1, err))
					break
				what = check_trace(ctx, rn, T, desc, restarted = True)
				ctx.count("restarts")
				if what:
					ctx.violation("restart", desc, what = "after stop()/start() number %d: %s" % (cycle + 1, what))
					break
	sim.restore_time()
	logging.getLogger().setLevel(logging.WARNING)
	ctx.require("runs", 50)
	ctx.require("runs_at_debug_log_level", 20)
	ctx.require("ticks", 10000)
	ctx.require("overruns", 100)
	ctx.require("hyperframe_wraps", 5)
	ctx.require("indications_checked", 100)
	ctx.require("restarts", 10)
	ctx.require("runs_with_changing_links", 20)
	ctx.require("runs_with_clock_origin_beyond_2^53_ns", 20)


def replay(ctx, data):
	ctx.rule = "replay: runs are regenerated from the seed (descriptors hold lambdas); rerunning the check with the recorded seed"
	ctx.seed = data.get("seed", 0)
	run(ctx)

# C11 - Firmware and trxcon agree on the multiframe mapping of every logical channel.
#
# Finite space, enumerated completely at run time on both sides: the real
# firmware mframe_sched.c (every task, every FN of a 51x26x8 cycle and the
# hyperframe wrap, recording tdma_schedule_set calls) and the real trxcon
# sched_mframe.c under ASan (every (combination, timeslot) lookup, every frame).

import os
import re

from vf import common, cbuild
from vf.ref import mframe

SHARDS = {"quick": 1, "thorough": 1}
CYCLE = 51 * 26 * 8
LCM = 5304   # lcm(102, 104); CYCLE = 2 * LCM
HYPER = 2715648


def parse_enum(path, name):
	with open(path) as f:
		txt = f.read()
	txt = re.sub(r"/\*.*?\*/", "", txt, flags = re.S)
	txt = re.sub(r"//[^\n]*", "", txt)
	m = re.search(r"enum\s+%s\s*\{(.*?)\}" % name, txt, flags = re.S)
	if not m:
		raise common.HarnessError("enum %s not found in %s" % (name, path))
	out = {}
	val = 0
	for item in m.group(1).split(","):
		item = item.strip()
		if not item:
			continue
		if "=" in item:
			k, v = item.split("=")
			item = k.strip()
			val = int(v.strip(), 0)
		out[item] = val
		val += 1
	return out


def build_and_dump(ctx):
	bd = cbuild.BuildDir("c11")
	try:
		fw = cbuild.compile_link(bd, "mframe_fw_drv",
			[os.path.join(cbuild.CDIR, "drivers/mframe_fw_drv.c"),
			 os.path.join(cbuild.FW, "layer1/mframe_sched.c"),
			 os.path.join(cbuild.LIBOSMO, "src/gsm/gsm_utils.c")],
			includes = cbuild.firmware_includes(bd),
			# '1 << 31' on an int in mframe_schedule() is a shift-base report that is
			# not what this property is about
			cflags = cbuild.GC[0] + ["-fno-sanitize=shift-base"], ldflags = cbuild.GC[1])
		tc = cbuild.compile_link(bd, "mframe_trxcon_drv",
			[os.path.join(cbuild.CDIR, "drivers/mframe_trxcon_drv.c"),
			 os.path.join(cbuild.TRXCON, "src/sched_mframe.c")],
			includes = cbuild.trxcon_includes(bd), cflags = cbuild.GC[0], ldflags = cbuild.GC[1])
		rc1, out1, err1 = cbuild.run_patient(fw, timeout = 120)
		rc2, out2, err2 = cbuild.run_patient(tc, timeout = 120)
	finally:
		bd.remove()
	for who, rc, err in (("firmware mframe_sched.c", rc1, err1), ("trxcon sched_mframe.c", rc2, err2)):
		if rc != 0:
			rep = cbuild.sanitizer_summary(err)
			ctx.violation("sanitizer", {"side": who, "stderr": err.decode(errors = "replace")[-2500:]},
				what = "%s: driver died (rc=%s): %s" % (who, rc, rep or "no sanitizer report"))
	return (out1.decode() if rc1 == 0 else None), (out2.decode() if rc2 == 0 else None)


SCHED_TRX_C = os.path.join(cbuild.TRXCON, "src/sched_trx.c")
LOOKUP_FUNCS = ("subst_frame_loss", "l1sched_pull_burst", "l1sched_handle_rx_burst")


def extract_lookup():
	""" Text of the two scheduler entry points that look a frame up in the layout (sched_trx.c as a whole
	    needs the complete modern libosmocore). -> text or None """
	import re
	with open(SCHED_TRX_C) as f:
		lines = f.read().split("\n")
	out = []
	for name in LOOKUP_FUNCS:
		start = next((i for i, l in enumerate(lines) if re.match(r"^(static\s+)?(void|int)\s+%s\s*\(" % name, l)), None)
		if start is None:
			if name == "subst_frame_loss":
				continue        # the lost-frame part is then left out (the driver's stand-in returns 0)
			return None

		end = next((i for i in range(start, len(lines)) if lines[i].startswith("}")), None)
		if end is None:
			return None
		out.append("\n".join(lines[start:end + 1]))
	return "\n\n".join(out)


def lookup_dump(ctx):
	""" -> list of (dir, config, tn, fn, chan, bid) as selected by the real lookup code, or None """
	text = extract_lookup()
	if text is None:
		ctx.count("scheduler_lookup_functions_not_found")
		return None
	bd = cbuild.BuildDir("c11l")
	try:
		tu = os.path.join(bd.path, "sched_lookup_tu.c")
		with open(tu, "w") as f:
			f.write("/* generated: function text from %s */\n" % SCHED_TRX_C)
			if "subst_frame_loss(struct" in text.split("l1sched_pull_burst")[0]:
				f.write("#define WITH_SUBST_FRAME_LOSS 1\n")
			f.write("#define LOOKUP_PART_1\n#include \"sched_lookup_main.c\"\n#undef LOOKUP_PART_1\n")
			# one recording handler pair per entry of the channel description table, so that the entry the real
			# code takes its handler from is observable
			f.write("#define HAVE_FILL_DESC 1\n")
			for k in range(64):
				f.write("static int rec_tx_%d(struct l1sched_lchan_state *l, struct l1sched_burst_req *b) { rec_desc = %d; return rec_tx(l, b); }\n" % (k, k))
				f.write("static int rec_rx_%d(struct l1sched_lchan_state *l, const struct l1sched_burst_ind *b) { rec_desc = %d; return rec_rx(l, b); }\n" % (k, k))
			f.write("static void fill_desc(void) {\n")
			for k in range(64):
				f.write("\tif (%d < _L1SCHED_CHAN_MAX) { l1sched_lchan_desc_rw[%d].tx_fn = rec_tx_%d; l1sched_lchan_desc_rw[%d].rx_fn = rec_rx_%d; }\n" % (k, k, k, k, k))
			f.write("}\n")
			f.write(text + "\n#define LOOKUP_PART_2\n#include \"sched_lookup_main.c\"\n")
		try:
			binary = cbuild.compile_link(bd, "sched_lookup_drv", [tu, os.path.join(cbuild.TRXCON, "src/sched_mframe.c"),
				os.path.join(cbuild.CDIR, "shim/shim.c")],
				includes = [os.path.join(cbuild.CDIR, "drivers")] + cbuild.trxcon_includes(bd), cflags = cbuild.GC[0], ldflags = cbuild.GC[1])
		except cbuild.BuildFailed:
			# the functions exist but no longer fit the stand-ins: this sub-workload cannot speak
			ctx.count("scheduler_lookup_not_buildable_with_the_stand_ins")
			return None
		rc, out, err = cbuild.run_patient(binary, timeout = 120)
	finally:
		bd.remove()
	if rc != 0:
		ctx.violation("sanitizer", {"side": "trxcon sched_trx.c frame lookup", "stderr": err.decode(errors = "replace")[-2500:]},
			what = "trxcon frame lookup: driver died (rc=%s): %s" % (rc, cbuild.sanitizer_summary(err) or "no sanitizer report"))
		return None
	res = []
	for l in out.decode().splitlines():
		p = l.split()
		if p and p[0] in ("u", "d"):
			res.append((p[0], int(p[1]), int(p[2]), int(p[3]), int(p[4]), int(p[5]), int(p[-1]) if len(p) > (6 if p[0] == "u" else 7) else None))
		elif p and p[0] == "l":
			calls = [tuple(int(x) for x in c.split("/")) for c in p[7:]]
			res.append(("l", int(p[1]), int(p[2]), int(p[3]), int(p[4]), int(p[5]), calls))
	return res


def check_lookup(ctx, layouts):
	""" The scheduler's own lookup must select frames[fn mod period] of the timeslot's layout, for uplink pulls
	    and downlink bursts alike (also for frame numbers above 255 / 65535 and at the end of the hyperframe). """
	res = lookup_dump(ctx)
	if res is None:
		return
	H = 2715648
	for rec in res:
		if rec[0] != "l":
			continue
		(_, config, tn, fn1, fn2, rc, calls) = rec
		L = layouts.get((config, tn))
		if not L or not L["frames"]:
			continue
		per = L["period"]
		chan = L["frames"][fn1 % per][0]
		want = []
		f = (fn1 + 1) % H
		while f != fn2:
			if L["frames"][f % per][0] == chan:
				want.append((f, chan, L["frames"][f % per][1]))
			f = (f + 1) % H
		want.append((fn2, chan, L["frames"][fn2 % per][1]))
		ctx.count("scheduler_lost_frame_cases_checked")
		ctx.seen(hash(("loss", config, tn, fn1, fn2)))
		if rc != 0 or calls != want:
			ctx.violation("lookup", {"config": config, "tn": tn, "burst_at": fn1, "next_burst_at": fn2, "period": per, "rc": rc,
				"handler_calls": calls[:12], "layout_says": want[:12]},
				what = "trxcon substitutes lost frames %d..%d of channel %d with other (frame, channel, burst id) than the layout's "
					"frames[fn mod %d] give" % ((fn1 + 1) % H, (fn2 - 1) % H, chan, per))
			return
	for rec in res:
		if rec[0] == "l":
			continue
		(d, config, tn, fn, chan, bid, desc) = rec
		L = layouts.get((config, tn))
		if not L or not L["frames"]:
			continue
		fr = L["frames"][fn % L["period"]]
		want = (fr[2], fr[3]) if d == "u" else (fr[0], fr[1])
		ctx.count("scheduler_lookups_checked")
		ctx.seen(hash(("lookup", d, config, tn, fn)))
		if desc is not None and desc != -1 and desc != chan:
			ctx.violation("lookup", {"direction": "uplink pull" if d == "u" else "downlink burst", "config": config, "tn": tn, "fn": fn,
				"channel": chan, "handler_taken_from_description_entry": desc},
				what = "trxcon takes the handler for channel %d from entry %d of the channel description table" % (chan, desc))
			return
		if (chan, bid) != want:
			ctx.violation("lookup", {"direction": "uplink pull" if d == "u" else "downlink burst", "config": config, "tn": tn, "fn": fn,
				"selected": [chan, bid], "layout_says": list(want), "period": L["period"]},
				what = "trxcon's frame lookup selects (channel %d, burst id %d) for frame %d, the layout's frame %d mod %d holds (%d, %d)"
					% (chan, bid, fn, fn, L["period"], want[0], want[1]))
			return


def parse_fw(txt):
	""" -> {task: {"cycle": [(first_fn, set, p3, off)], "wrap": [...]}} """
	res = {}
	cur = None
	seg = None
	for line in txt.splitlines():
		p = line.split()
		if p[0] == "T":
			cur = int(p[1])
			res[cur] = {"cycle": [], "wrap": []}
			seg = "cycle"
		elif p[0] == "W":
			seg = "wrap"
		elif p[0] == "s":
			res[cur][seg].append((int(p[1]), p[2], int(p[3]), int(p[4])))
	return res


def parse_tc(txt):
	layouts = {}   # (config, tn) -> None | dict
	reads = None
	for line in txt.splitlines():
		p = line.split(None, 7)
		if p[0] == "L":
			key = (int(p[1]), int(p[2]))
			if p[3] == "NULL":
				layouts[key] = None
			else:
				layouts[key] = {"chan_config": int(p[3]), "period": int(p[4]), "slotmask": int(p[5]),
					"lchan_mask": int(p[6], 16), "name": p[7] if len(p) > 7 else "", "frames": []}
		elif p[0] == "f":
			q = line.split()
			layouts[(int(q[1]), int(q[2]))]["frames"].append((int(q[4]), int(q[5]), int(q[6]), int(q[7])))
		elif p[0] == "R":
			reads = int(p[1])
	return layouts, reads


def expand(frames, period, P):
	return frozenset(f + k * period for f in frames for k in range(P // period))


def run(ctx):
	ctx.rule = ("complete enumeration: every firmware multiframe task x every FN of a 51x26x8 cycle and +-320 frames around the "
		"hyperframe wrap; every trxcon (channel combination, timeslot) lookup and every frame of every layout, read under ASan "
		"for every FN of the cycle; one case = one (firmware task/set/direction, trxcon combination, timeslot, logical channel) "
		"comparison or one per-layout structural check; distinct = distinct case keys; all non-trivial")
	tasks = parse_enum(os.path.join(cbuild.FW, "include/layer1/mframe_sched.h"), "mframe_task")
	lch = parse_enum(os.path.join(cbuild.TRXCON, "include/osmocom/bb/l1sched/l1sched.h"), "l1sched_lchan_type")
	pch = parse_enum(os.path.join(cbuild.CDIR, "shim/osmocom/gsm/gsm_utils.h"), "gsm_phys_chan_config")
	lch_name = {v: k for k, v in lch.items()}
	fw_txt, tc_txt = build_and_dump(ctx)
	if fw_txt is None or tc_txt is None:
		ctx.seen(1); ctx.seen(2)
		return
	fw = parse_fw(fw_txt)
	layouts, reads = parse_tc(tc_txt)
	ctx.count("trxcon_frame_reads_under_asan", reads or 0)
	check_lookup(ctx, layouts)
	ctx.count("firmware_tasks_dumped", len(fw))
	ctx.count("firmware_schedule_calls", sum(len(v["cycle"]) + len(v["wrap"]) for v in fw.values()))

	# ---- firmware: residues per (task, set, sacch flag) and periodicity ----
	fw_res = {}
	for tname, tid in tasks.items():
		if tid not in fw:
			continue
		groups = {}
		for (first, s, p3, off) in fw[tid]["cycle"]:
			if (p3 & 0xff) != tid:
				ctx.violation("fw-p3", {"task": tname, "p3": p3}, what = "firmware passes a p3 that does not name the task")
			groups.setdefault((s, (p3 >> 8) & 1), []).append(first)
		for (s, sacch), firsts in groups.items():
			P = LCM   # common multiple of the 51- and 26-multiframe based periods
			res = frozenset(f % P for f in firsts)
			# every frame of the cycle window [2, CYCLE+2) with such a residue, exactly once
			expect = sorted(f for f in range(2, CYCLE + 2) if f % P in res)
			if sorted(firsts) != expect:
				ctx.violation("fw-periodic", {"task": tname, "set": s, "residues": sorted(res),
					"calls": len(firsts), "expected_calls": len(expect)},
					what = "firmware does not start this channel periodically / exactly once per occurrence over the cycle")
			# across the hyperframe wrap
			wfirsts = sorted(f for (f, s2, p3, off) in fw[tid]["wrap"] if s2 == s and ((p3 >> 8) & 1) == sacch)
			lo, hi = HYPER - 320 + 2, 320 + 2
			wexpect = sorted([f for f in range(lo, HYPER) if f % P in res] + [f for f in range(0, hi) if f % P in res])
			if wfirsts != sorted(wexpect):
				ctx.violation("fw-wrap", {"task": tname, "set": s, "got": wfirsts[:20], "expected": sorted(wexpect)[:20]},
					what = "firmware block starts are not continuous across the hyperframe wrap")
			fw_res[(tname, s, sacch)] = res
			ctx.seen(("fw", tname, s, sacch))

	# ---- trxcon: structural checks per layout ----
	want = {pch[c] for c in mframe.COMBINATIONS}
	for c in mframe.COMBINATIONS:
		for tn in range(8):
			lay = layouts.get((pch[c], tn))
			ctx.seen(("lookup", c, tn))
			ctx.count("lookups")
			if lay is None:
				ctx.violation("lookup", {"config": c, "tn": tn}, what = "l1sched_mframe_layout() returns NULL for an implemented combination")
				continue
			if lay["chan_config"] != pch[c] or not (lay["slotmask"] >> tn) & 1:
				ctx.violation("lookup", {"config": c, "tn": tn, "layout": {k: v for k, v in lay.items() if k != "frames"}},
					what = "lookup returns a layout for another combination or one whose slotmask excludes the timeslot")
			if c == "GSM_PCHAN_NONE":
				continue
			if lay["period"] <= 0 or len(lay["frames"]) != lay["period"]:
				ctx.violation("layout", {"config": c, "tn": tn, "period": lay["period"]}, what = "layout period / frame table mismatch")
				continue
			for direction, ci, bi in (("dl", 0, 1), ("ul", 2, 3)):
				owned = {}
				for idx, fr in enumerate(lay["frames"]):
					ch = fr[ci]
					name = lch_name.get(ch)
					if name is None:
						ctx.violation("layout", {"config": c, "tn": tn, "frame": idx, "chan": ch},
							what = "frame uses a channel type outside the enum")
						continue
					if name != "L1SCHED_IDLE" and not (lay["lchan_mask"] >> ch) & 1:
						ctx.violation("mask", {"config": c, "tn": tn, "frame": idx, "chan": name, "direction": direction},
							what = "a channel used by a frame is missing from the layout's lchan_mask")
					owned.setdefault(name, []).append((idx, fr[bi]))
				for name, lst in owned.items():
					if name in mframe.SINGLE:
						continue   # not block channels: the burst id carries no meaning
					n = 2 if name in mframe.TWO else 4
					bids = [b for _, b in lst]
					ok = len(bids) % n == 0 and all(bids[(k + 1) % len(bids)] == (bids[k] + 1) % n for k in range(len(bids)))
					ctx.seen(("bids", c, tn, direction, name))
					ctx.count("burst_id_sequences")
					if not ok:
						ctx.violation("bids", {"config": c, "tn": tn, "direction": direction, "chan": name,
							"frames_and_bids": lst[:24]}, what = "burst ids of a block channel are not cyclic 0..%d" % (n - 1))

	# ---- three-way comparison per channel pair ----
	for (task, s, sacch, cfgs, lchan, direction, mode, ckey) in mframe.pairs():
		key = (task, s, sacch)
		P, refset = mframe.CLAUSE7[ckey]
		if key not in fw_res:
			ctx.violation("pair", {"task": task, "set": s, "sacch": sacch},
				what = "firmware never schedules this (task, set, flag) although the channel is implemented")
			continue
		fres = frozenset(f % P for f in fw_res[key])
		if expand(fres, P, LCM) != fw_res[key]:
			ctx.violation("fw-period", {"task": task, "set": s, "sacch": sacch, "period": P},
				what = "firmware does not repeat this channel with the multiframe period")
			continue
		if fres != refset:
			ctx.violation("fw-vs-45002", {"task": task, "set": s, "sacch": sacch, "firmware": sorted(fres), "clause7": sorted(refset)},
				what = "firmware frames differ from TS 45.002 clause 7")
		for (c, tns) in cfgs:
			for tn in tns:
				lay = layouts.get((pch[c], tn))
				ctx.seen(("pair", task, s, sacch, c, tn, lchan, direction))
				ctx.count("channel_pairs_compared")
				if lay is None or not lay["frames"] or lay["period"] <= 0 or P % lay["period"]:
					ctx.violation("pair", {"config": c, "tn": tn}, what = "no usable trxcon layout for this pair")
					continue
				ci, bi = (0, 1) if direction == "dl" else (2, 3)
				idxs = [i for i, fr in enumerate(lay["frames"]) if fr[ci] == lch[lchan] and (mode == "all" or fr[bi] == 0)]
				tres = expand(idxs, lay["period"], P)
				if tres != fres:
					ctx.violation("fw-vs-trxcon", {"task": task, "set": s, "sacch": sacch, "config": c, "tn": tn,
						"lchan": lchan, "direction": direction, "firmware": sorted(fres), "trxcon": sorted(tres)},
						what = "firmware and trxcon disagree on the frames of this channel")
				elif tres != refset:
					ctx.violation("trxcon-vs-45002", {"config": c, "tn": tn, "lchan": lchan, "trxcon": sorted(tres),
						"clause7": sorted(refset)}, what = "trxcon frames differ from TS 45.002 clause 7")
				if ctx.counters["channel_pairs_compared"] % 97 == 1:
					ctx.sample("pair", {"task": task, "set": s, "sacch": sacch, "config": c, "tn": tn, "lchan": lchan,
						"direction": direction, "period": P, "frames": sorted(fres)})
	# firmware tasks that have no trxcon counterpart are dumped but not compared
	compared = {p[0] for p in mframe.pairs()}
	ctx.extra["firmware_tasks_not_compared"] = sorted(t for t in tasks if t not in compared)
	ctx.exhaustive = True
	ctx.require("channel_pairs_compared", 300)
	ctx.require("lookups", 72)
	ctx.require("burst_id_sequences", 100)
	ctx.require("trxcon_frame_reads_under_asan", 100000)
	ctx.require("firmware_schedule_calls", 10000)


def replay(ctx, data):
	ctx.rule = "replay = rerun of the complete enumeration (finite, seconds)"
	run(ctx)

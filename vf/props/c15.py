# C15 - Capture files return exactly what was stored, even after truncation.
#
# Read-back monitor: files written by the real append_msg/append_all are read
# back by parse_all/parse_msg (all skip/count/index combinations) and after
# truncation at every byte offset (crash-point enumeration), and compared with
# the written list by the harness's field comparison and framing model.

import io
import os
import struct

from vf import common, msgs
from vf.ref import trxd

common.use_toolkit()
import data_dump   # noqa: E402
common.quiet_logging()

SHARDS = {"quick": 1, "thorough": 16}


def frame(m):
	""" harness framing model: tag, 16-bit big-endian length, TRXD message """
	body = trxd.encode(m, False)
	return (b"\x01" if m["dir"] == "tx" else b"\x02") + struct.pack(">H", len(body)) + body


def same_list(ctx, got, want, what, w):
	if got is False or got is None or not isinstance(got, list):
		return "%s returned %r" % (what, got)
	if len(got) != len(want):
		return "%s returned %d messages, expected %d" % (what, len(got), len(want))
	for i, (g, m) in enumerate(zip(got, want)):
		d = msgs.diff(m, msgs.from_real(g))
		if d:
			return "%s: message %d differs in %s" % (what, i, ",".join(d))
	return None


def open_on(content):
	return data_dump.DATADumpFile(io.BytesIO(content))


def check_file(ctx, r, idx, ml, bd_path):
	w = {"messages": [trxd.brief(m) for m in ml[:6]], "count": len(ml)}
	n = len(ml)
	# --- write with the real code, by path (append mode) or file object
	by_path = (idx % 4 == 0)
	if by_path:
		path = os.path.join(bd_path, "cap-%d.bin" % idx)
		if os.path.exists(path):
			os.unlink(path)
		ddf = data_dump.DATADumpFile(path)
	else:
		bio = io.BytesIO()
		ddf = data_dump.DATADumpFile(bio)
	objs = [msgs.to_real(m) for m in ml]
	try:
		if n >= 3 and r.random() < 0.4:
			# appends interleaved with reads through the same object: a read leaves the position
			# somewhere inside the file (or stops before the end), what is appended afterwards must
			# still end up behind everything
			cutsn = sorted(r.sample(range(1, n), min(n - 1, r.randint(1, 3))))
			done = 0
			for k in cutsn + [n]:
				if r.random() < 0.6:
					# (any iterable of messages will do: a list, an iterator over one, a generator)
					part = objs[done:k]
					ddf.append_all(part if r.random() < 0.6 else iter(part) if r.random() < 0.5 else (o for o in part))
				else:
					[ddf.append_msg(o) for o in objs[done:k]]
				done = k
				if k == n:
					break
				kind = r.randrange(6)
				if kind == 0:
					g = ddf.parse_msg(r.randrange(k + 1))
				elif kind == 1:
					g = ddf.parse_all(r.randrange(k + 1), r.choice((1, 1, 2, k)))
				elif kind == 2:
					g = ddf.parse_all(None, r.randint(1, k))        # no skip: stops inside the file
				elif kind == 3:
					g = ddf.parse_all(0, r.randint(1, k))
				elif kind == 4:
					g = ddf.parse_all()
				else:
					g = ddf.parse_all(r.randrange(k + 1))
				ctx.count("read_kind_between_appends:%d" % kind)
			ctx.count("files_with_reads_between_appends")
		elif by_path and n >= 2 and r.random() < 0.5:
			# written in two sessions: the capture is re-opened by path and appended to
			k = r.randrange(1, n)
			ddf.append_all(objs[:k])
			ddf.f.close()
			ddf = data_dump.DATADumpFile(path)
			ddf.append_all(objs[k:])
			ctx.count("files_reopened_and_appended")
		elif r.random() < 0.5:
			ddf.append_all(objs)
		else:
			for o in objs:
				ddf.append_msg(o)
		ddf.f.flush()
		if by_path:
			with open(path, "rb") as f:
				content = f.read()
		else:
			content = bio.getvalue()
	except Exception as e:
		ctx.violation("write", w, what = "append of valid messages raised %s: %s" % (type(e).__name__, e))
		return
	ctx.count("files")
	ctx.count("messages", n)
	frames = [frame(m) for m in ml]
	if content != b"".join(frames):
		ctx.violation("write", dict(w, size = len(content), expected_size = sum(map(len, frames))),
			what = "bytes written differ from tag + 16-bit length + TRXD message per record")
		return
	ends = []
	pos = 0
	for f in frames:
		pos += len(f)
		ends.append(pos)
	# --- full read and random access on the written file itself
	try:
		got = ddf.parse_all()
		err = same_list(ctx, got, ml, "parse_all()", w)
		if err:
			ctx.violation("read", w, what = err)
			return
		for i in list(range(0, min(n, 6))) + [n - 1, n, n + 1, n + 2, r.randrange(n + 3)]:
			if i < 0:
				continue
			g = ddf.parse_msg(i)
			ctx.count("indexed_reads")
			if i < n:
				if g is None or g is False:
					ctx.violation("read", dict(w, index = i), what = "parse_msg(%d) returned %r for a stored message" % (i, g))
					return
				d = msgs.diff(ml[i], msgs.from_real(g))
				if d:
					ctx.violation("read", dict(w, index = i), what = "parse_msg(%d) differs in %s" % (i, ",".join(d)))
					return
			elif g is not None:
				ctx.violation("read", dict(w, index = i), what = "parse_msg(%d) beyond the end returned %r" % (i, g))
				return
		grid = sorted({0, 1, 2, n - 1, n, n + 1, r.randrange(n + 2)} - {-1})
		counts = [None, 1, 2, n, n + 1, r.randint(1, n + 2)]
		if n > 260:
			# long captures: indices, skips and counts beyond 255 / 256 / 257
			grid = sorted(set(grid) | {255, 256, 257, n - 257})
			counts += [255, 256, 257, 258, n - 1]
			for i in (255, 256, 257, 258, n - 2):
				g = ddf.parse_msg(i)
				ctx.count("indexed_reads_beyond_255")
				if g is None or g is False or msgs.diff(ml[i], msgs.from_real(g)):
					ctx.violation("read", dict(w, index = i), what = "parse_msg(%d) does not return the stored message" % i)
					return
		for skip in [None] + [s for s in grid if s >= 0]:
			for count in counts:
				if count is not None and count < 1:
					continue
				g = ddf.parse_all(skip, count)
				ctx.count("slices_compared")
				s0 = skip or 0
				want = ml[s0:] if count is None else ml[s0:s0 + count]
				if not want and g is False and s0 <= len(ml):
					# a skip of at most the number of stored messages is inside the capture: the slice is empty, not an error
					ctx.violation("read", dict(w, skip = skip, count = count),
						what = "parse_all(skip=%r, count=%r) reports a range error for a capture of %d messages (the slice is empty)" % (skip, count, len(ml)))
					return
				if not want and (g is False or g == []):
					continue
				err = same_list(ctx, g, want, "parse_all(skip=%r, count=%r)" % (skip, count), w)
				if err:
					ctx.violation("read", dict(w, skip = skip, count = count), what = err)
					return
	except Exception as e:
		ctx.violation("read", w, what = "reading back raised %s: %s" % (type(e).__name__, e))
		return
	finally:
		if by_path:
			try:
				ddf.f.close()
				os.unlink(path)
			except OSError:
				pass
	# --- truncation at byte offsets (a crash while writing)
	size = len(content)
	if size <= (2500 if ctx.tier == "quick" else 8000):
		cuts = range(size + 1)
		ctx.count("files_cut_at_every_offset")
	else:
		cs = {0, size}
		for e in ends:
			cs.update(range(max(0, e - 4), min(size, e + 4) + 1))
		cs.update(r.randrange(size + 1) for _ in range(60))
		cuts = sorted(cs)
	for c in cuts:
		k = sum(1 for e in ends if e <= c)
		ctx.count("truncated_reads")
		start = ends[k - 1] if k else 0
		ctx.count("cut_on_boundary" if c == start else "cut_in_header" if c - start < 3 else "cut_in_body")
		try:
			got = open_on(content[:c]).parse_all()
		except Exception as e:
			ctx.violation("truncate", dict(w, cut = c, size = size), what = "reading a truncated file raised %s: %s" % (type(e).__name__, e))
			return
		err = same_list(ctx, got, ml[:k], "parse_all() on the file cut at offset %d of %d" % (c, size), w)
		if err:
			ctx.violation("truncate", dict(w, cut = c, size = size, complete_records = k), what = err)
			return
		if c - start < 3 or c % 5 == 0:
			# indices at and beyond the cut: nothing there, and no exception
			try:
				g1 = open_on(content[:c]).parse_msg(k + 1)
				g0 = open_on(content[:c]).parse_msg(k)
				gs = open_on(content[:c]).parse_all(k + 1, None)
			except Exception as e:
				ctx.violation("truncate", dict(w, cut = c, complete_records = k),
					what = "random access beyond the cut of a truncated file raised %s" % type(e).__name__)
				return
			if g1 is not None or g0 is not None or not (gs is False or gs == []):
				ctx.violation("truncate", dict(w, cut = c, complete_records = k),
					what = "random access beyond the cut of a truncated file returned something")
				return
		if c % 7 == 0 and k > 0:
			# random access on the truncated file
			try:
				g = open_on(content[:c]).parse_msg(k)
				g2 = open_on(content[:c]).parse_msg(k - 1)
			except Exception as e:
				ctx.violation("truncate", dict(w, cut = c), what = "parse_msg on a truncated file raised %s" % type(e).__name__)
				return
			if g is not None or g2 is None or g2 is False or msgs.diff(ml[k - 1], msgs.from_real(g2)):
				ctx.violation("truncate", dict(w, cut = c, complete_records = k),
					what = "random access on a truncated file does not return exactly the complete messages")
				return


def run(ctx):
	ctx.rule = ("lists of 0..40 reference-valid messages (both directions, v0/v1, every modulation, NOPE) written by the real "
		"append_msg/append_all by path and by file object, in one go, re-opened, or with reads of every kind (indexed, skip/count, "
		"count without skip, full) between up to four appends; every 40th capture holds 261..700 records (indices, skips and counts "
		"around 256); full read, every index 0..n+2, a (skip, count) grid around 0, n-1, n, n+1; "
		"truncation at every byte offset for files up to 2.5 kB (thorough: 8 kB), at +-4 of every record boundary plus 60 random "
		"offsets for longer ones; distinct = distinct files by content hash; non-trivial = files with at least one message")
	bd = os.path.join(common.VERIF, "build", "c15.%d" % os.getpid())
	os.makedirs(bd, exist_ok = True)
	r = ctx.rng("c15")
	try:
		for i in range(ctx.scale(160, 12000)):
			k = r.random()
			n = 0 if k < 0.05 else r.randint(1, 6) if k < 0.6 else r.randint(1, 40)
			long = (i % 40 == 7)
			if long:
				# a long capture of small records (NOPE indications and short bursts)
				n = r.choice((261, 300, 520, 700))
				ctx.count("long_captures")
			ml = []
			for _ in range(n):
				m = trxd.rand_msg(r)
				if long and not m.get("nope") and r.random() < 0.85:
					m = trxd.rand_rx(r, ver = 1, nope = True)
				ml.append(m)
			ctx.seen(hash(tuple(trxd.key(m) for m in ml)), nontrivial = n > 0)
			with common.case_watchdog(ctx, "read", {"messages": [trxd.brief(m) for m in ml[:6]], "count": len(ml)}, first = 60, second = 60):
				check_file(ctx, r, i, ml, bd)
			if i < 2:
				ctx.sample("file", {"messages": [trxd.brief(m) for m in ml[:3]], "count": n})
			if ctx.too_many() or ctx.time_left() < 0:
				break
	finally:
		import shutil
		shutil.rmtree(bd, ignore_errors = True)
	ctx.require("files", 50)
	ctx.require("truncated_reads", 20000)
	ctx.require("cut_in_header", 1000)
	ctx.require("cut_in_body", 5000)
	ctx.require("cut_on_boundary", 500)
	ctx.require("slices_compared", 2000)
	ctx.require("indexed_reads", 1000)
	ctx.require("files_with_reads_between_appends", 20)
	ctx.require("long_captures", 2)
	ctx.require("indexed_reads_beyond_255", 10)


def replay(ctx, data):
	ctx.rule = "replay: files are regenerated from the seed; rerunning the check with the recorded seed"
	ctx.seed = data.get("seed", 0)
	run(ctx)

# C04 - TRXD octets follow the protocol layout; Python and trxcon (C) agree.
#
# Differential runtime monitor: real data_msg vs the independent layout codec
# vf/ref/trxd.py vs the real trxcon trx_if.c (ASan+UBSan, libosmocore shim).

from vf import common, msgs, cbuild
from vf.ref import trxd

SHARDS = {"quick": 1, "thorough": 16}


# ---- (a) encoder: octets must be exactly those of the layout -----------------

def check_encode(ctx, m, legacy):
	obj = msgs.to_real(m)
	try:
		data = bytes(obj.gen_msg(legacy))
	except ValueError:
		ctx.count("refused_by_toolkit")   # C13's business
		return
	ctx.seen(trxd.key(m, legacy))
	ctx.count("encode_checks")
	want = trxd.encode(m, legacy)
	if data != want:
		n = next((i for i in range(min(len(data), len(want))) if data[i] != want[i]), min(len(data), len(want)))
		ctx.violation("encode", {"msg": m, "legacy": legacy, "got": data[:16].hex(), "expected": want[:16].hex(),
			"first_difference_at_octet": n, "len_got": len(data), "len_expected": len(want)},
			what = "gen_msg() octets differ from the TRXD layout (%s v%d, first difference in %s)"
			% (m["dir"], m["ver"], "header" if n < (6 if m["dir"] == "tx" else (8 if m["ver"] == 0 else 11)) else "burst"))


# ---- (b) parser: whatever it accepts is read per the layout ------------------

def mutate(r, d):
	d = bytearray(d)
	if len(d) == 0:
		return bytes(r.randbytes(r.randrange(12)))
	k = r.randrange(8)
	if k == 0 and len(d) > 0:
		d[r.randrange(min(len(d), 12))] = r.randrange(256)
	elif k == 1:
		for _ in range(r.randint(1, 6)):
			d[r.randrange(len(d))] ^= 1 << r.randrange(8)
	elif k == 2:
		d = d[:r.randrange(len(d) + 1)]
	elif k == 3:
		d += r.randbytes(r.choice((1, 2, 3, 148, 296)))
	elif k == 4:
		d[0] = (r.randrange(16) << 4) | (d[0] & 0x0f)
	elif k == 5 and len(d) > 8:
		d[8] = r.randrange(256)          # MTS octet / first burst octet
	elif k == 6:
		hl = r.choice((6, 8, 11))
		d = d[:hl] + r.randbytes(r.choice((0, 1, 147, 148, 149, 150, 151, 296, 443, 444, 445, 446, 447, 592, 740)))
	else:
		d[0] |= 0x08                     # the reserved bit next to TN
	return bytes(d)


PARSES = [0]
KEPT = {}


def check_parse(ctx, d, direction, how):
	dm = msgs.data_msg
	PARSES[0] += 1
	if PARSES[0] % 3 == 0:
		# one message object parsing datagram after datagram: nothing of the previous one may survive
		new = KEPT.setdefault(direction, dm.TxMsg() if direction == "tx" else dm.RxMsg())
		ctx.count("parsed_into_a_reused_object")
	else:
		new = dm.TxMsg() if direction == "tx" else dm.RxMsg()
	try:
		new.parse_msg(bytearray(d))
	except ValueError:
		ctx.count("parser_rejected")
		return
	except Exception as e:
		# C14 owns "anything but ValueError"; here only count it
		ctx.count("parser_raised_other")
		return
	ctx.count("parser_accepted")
	ctx.count("parser_accepted_%s" % how)
	ctx.seen(hash((d, direction)))
	try:
		ref = trxd.decode(d, direction)
	except ValueError as e:
		ctx.violation("parse", {"datagram": d[:24].hex(), "len": len(d), "direction": direction},
			what = "parser accepts a datagram the layout gives no reading for (%s)" % e)
		return
	got = msgs.from_real(new)
	bad = []
	for k in ("ver", "fn", "tn"):
		if got[k] != ref[k]:
			bad.append(k)
	if direction == "tx":
		if got["pwr"] != ref["pwr"]:
			bad.append("pwr")
		if not ref.get("partial") and got["bits"] != ref["bits"]:
			bad.append("bits")
	else:
		for k in ("rssi", "toa256"):
			if got[k] != ref[k]:
				bad.append(k)
		if ref["ver"] >= 1:
			if bool(got["nope"]) != bool(ref["nope"]) or got["ci"] != ref["ci"]:
				bad.append("nope/ci")
			if not ref["nope"] and ref.get("mod") is not None:
				for k in ("mod", "tsc_set", "tsc"):
					if got.get(k) != ref.get(k):
						bad.append(k)
		if not ref.get("partial") or (ref["ver"] >= 1 and "soft" in ref):
			if "soft" in ref and got["soft"] != ref["soft"]:
				bad.append("soft")
	if bad:
		ctx.violation("parse", {"datagram": d[:24].hex(), "len": len(d), "direction": direction,
			"parsed": trxd.brief(got), "layout": trxd.brief(ref)},
			what = "parser reads an accepted datagram differently from the layout: %s" % ",".join(bad))


class IfProbe:
	""" The same datagrams through the real DATAInterface.recv_tx_msg()/recv_rx_msg() on vnet:
	    accepted iff the layout gives them a reading with the negotiated version, fields per layout. """

	def __init__(self):
		from vf import sim
		self.world = sim.World(0)
		self.ep = self.world.net.endpoint("127.0.0.1", 7302)
		self.dif = sim.transceiver.DATAInterface("127.0.0.1", 7302, "127.0.0.1", 7202)

	def check(self, ctx, d, direction, ver):
		if not self.dif.set_hdr_ver(ver):
			return
		self.ep.sendto(d, ("127.0.0.1", 7202))
		try:
			got = self.dif.recv_tx_msg() if direction == "tx" else self.dif.recv_rx_msg()
		except Exception as e:
			ctx.count("data_if_raised")     # C14's business
			return
		ctx.count("data_if_reads")
		try:
			ref = trxd.decode(d[:512], direction)
		except ValueError:
			ref = None
		if got is None or got is False:
			ctx.count("data_if_dropped")
			return
		ctx.count("data_if_accepted")
		if ref is None or ref["ver"] != ver:
			ctx.violation("data-if", {"datagram": d[:24].hex(), "len": len(d), "direction": direction, "negotiated_version": ver},
				what = "DATAInterface hands up a datagram that %s" % ("the layout gives no reading for" if ref is None
					else "carries header version %d while %d was negotiated" % (ref["ver"], ver)))
			return
		g = msgs.from_real(got)
		if g["dir"] != direction:
			ctx.violation("data-if", {"datagram": d[:24].hex(), "direction": direction},
				what = "DATAInterface returns a %s message from its %s receive path" % (g["dir"], direction))
			return
		bad = [k for k in ("fn", "tn") + (("pwr",) if direction == "tx" else ("rssi", "toa256")) if g[k] != ref[k]]
		if not ref.get("partial"):
			k = "bits" if direction == "tx" else "soft"
			if g[k] != ref.get(k):
				bad.append(k)
		if bad:
			ctx.violation("data-if", {"datagram": d[:24].hex(), "len": len(d), "direction": direction},
				what = "DATAInterface reads a datagram differently from the layout: %s" % ",".join(bad))


# ---- (c)+(d) cross-language: real trx_if.c -----------------------------------

def c_cases(ctx, r, n_cases, per_case):
	cases = []
	for i in range(n_cases):
		ops = []
		for _ in range(per_case):
			if r.random() < 0.6:
				m = trxd.rand_rx(r, ver = 0)
				k = r.random()
				if k < 0.1:
					m["rssi"] = r.choice((-120, -119, -48, -47))
				if k > 0.9:
					m["toa256"] = r.choice((-32768, -1, 0, 1, 32767, 255, 256, -256, -257))
				legacy = r.random() < 0.5
				# the bit between version and timeslot number is reserved: set by a peer, it changes nothing
				ops.append(("D", m, legacy, r.random() < 0.12))
			else:
				if r.random() < 0.08:
					# a control command is on its way (no response yet): bursts are still passed on meanwhile
					ops.append(("K", r.choice(("SETTA %d" % r.randrange(64), "SETSLOT %d 1" % r.randrange(8), "MEASURE 1"))))
				n = r.choice((0, 148, 148, 444))
				br = {"fn": trxd.rand_fn(r), "tn": r.randrange(8), "pwr": trxd.rand_edge(r, 0, 255),
				      "bits": trxd.rand_bits(r, n) if n else b""}
				ops.append(("B", br))
		cases.append(ops)
	return cases


def render_c(idx, ops):
	out = ["N %d" % idx]
	for op in ops:
		if op[0] == "D":
			obj = msgs.to_real(op[1])
			data = bytes(obj.gen_msg(op[2]))     # encoded by the real toolkit
			if len(op) > 3 and op[3]:
				data = bytes([data[0] | 0x08]) + data[1:]
			out.append("D %s" % data.hex())
		elif op[0] == "K":
			out.append("K %s" % op[1])
		else:
			br = op[1]
			out.append("B %d %d %d %s" % (br["fn"], br["tn"], br["pwr"], bytes(br["bits"]).hex() or "-"))
	return ("\n".join(out) + "\n").encode()


def judge_c(ctx, binary, cases):
	dm = msgs.data_msg
	scripts = [render_c(i, ops) for i, ops in enumerate(cases)]
	outputs, crashes = cbuild.run_cases(binary, scripts)
	crashed = {c[0]: c for c in crashes}
	for i, ops in enumerate(cases):
		if i in crashed:
			_, rc, err, rep = crashed[i]
			ctx.violation("trxcon", {"script": scripts[i].decode()[:6000], "stderr": err[-1500:]},
				what = "trx_if.c driver died (rc=%s): %s" % (rc, rep or "no sanitizer report"))
			continue
		out = outputs[i]
		if out is None:
			ctx.inconclusive_because("C case %d never ran" % i)
			continue
		pos = 1   # skip the "n ..." line of trx_if_open
		if not out or not out[0].startswith("n 1"):
			ctx.inconclusive_because("trx_if_open failed in the driver: %r" % out[:1])
			continue
		for op in ops:
			# collect lines up to the op's result line
			chunk = []
			while pos < len(out):
				l = out[pos]
				pos += 1
				chunk.append(l)
				if l[:2] in ("d ", "b ", "k "):
					break
			if op[0] == "K":
				ctx.count("c_control_commands_pending")
				continue
			if op[0] == "D":
				m = op[1]
				ctx.seen(hash(("c-rx", trxd.key(m, op[2]))))
				ctx.count("c_bursts_fed")
				ind = [l for l in chunk if l.startswith("I ")]
				res = chunk[-1] if chunk else ""
				if len(ind) != 1 or res != "d 0":
					ctx.violation("trxcon-rx", {"msg": m, "legacy": op[2], "driver_output": chunk[:4]},
						what = "trxcon rejects / does not indicate a version-0 burst the toolkit sends")
					continue
				p = ind[0].split()
				fn, tn, rssi, toa, ln = int(p[1]), int(p[2]), int(p[3]), int(p[4]), int(p[5])
				soft = [b - 256 if b > 127 else b for b in bytes.fromhex(p[6])] if p[6] != "-" else []
				bad = [k for k, a, b in (("fn", fn, m["fn"]), ("tn", tn, m["tn"]), ("rssi", rssi, m["rssi"]),
					("toa256", toa, m["toa256"]), ("burst_len", ln, len(m["soft"])), ("soft bits", soft, list(m["soft"])))
					if a != b]
				ctx.count("c_bursts_indicated")
				if bad:
					ctx.violation("trxcon-rx", {"msg": m, "legacy": op[2], "indicated": ind[0][:200]},
						what = "trxcon decodes a toolkit burst to other values: %s" % ",".join(bad))
			else:
				br = op[1]
				ctx.seen(hash(("c-tx", br["fn"], br["tn"], br["pwr"], br["bits"])))
				ctx.count("c_requests_sent")
				res = chunk[-1].split() if chunk else []
				if len(res) != 3 or res[0] != "b" or res[1] != "0" or res[2] == "-":
					ctx.violation("trxcon-tx", {"req": br, "driver_output": chunk[:3]},
						what = "trx_if_handle_phyif_burst_req() sent nothing")
					continue
				data = bytes.fromhex(res[2])
				t = dm.TxMsg()
				try:
					t.parse_msg(data)
				except Exception as e:
					ctx.violation("trxcon-tx", {"req": br, "datagram": data[:16].hex(), "len": len(data)},
						what = "toolkit cannot parse the burst trxcon emits: %s" % e)
					continue
				got = msgs.from_real(t)
				want_bits = bytes(br["bits"]) if br["bits"] else None
				bad = [k for k, a, b in (("ver", got["ver"], 0), ("fn", got["fn"], br["fn"]), ("tn", got["tn"], br["tn"]),
					("pwr", got["pwr"], br["pwr"]), ("bits", got["bits"], want_bits)) if a != b]
				if bad:
					ctx.violation("trxcon-tx", {"req": br, "parsed": trxd.brief(got)},
						what = "toolkit parses a trxcon burst to other values than trxcon was given: %s" % ",".join(bad))
		if ctx.too_many():
			break


def run(ctx):
	ctx.rule = ("(a) reference-valid messages (C01's generator): real gen_msg octets vs independent struct-based encoder; (b) valid "
		"datagrams mutated (header octets, bit flips, truncation, extension, version nibble, MTS octet, burst lengths around every "
		"modulation length) and random strings: whenever the real parser accepts, fields vs reference decoder; (c) v0 bursts encoded by "
		"the toolkit fed to the real trx_data_rx_cb, indication compared; (d) burst requests through the real "
		"trx_if_handle_phyif_burst_req parsed by the toolkit; distinct = by content hash; all non-trivial")
	ctx.assume("trx_if.c runs against the harness shim of libosmocore over an AF_UNIX datagram socketpair")
	r = ctx.rng("c04")
	for k in range(ctx.scale(20000, 2000000)):
		m = trxd.rand_msg(r)
		legacy = r.random() < 0.5
		check_encode(ctx, m, legacy)
		if k < 3:
			ctx.sample("encode", {"msg": trxd.brief(m), "legacy": legacy, "octets": trxd.encode(m, legacy)[:12].hex()})
		if ctx.too_many():
			return
	for (mod, s, t) in trxd.all_mts_triples():
		m = trxd.rand_rx(r, ver = 1, nope = False, mod = mod)
		m["tsc_set"], m["tsc"] = s, t
		check_encode(ctx, m, False)
	ifp = IfProbe()
	for k in range(ctx.scale(20000, 2000000)):
		m = trxd.rand_msg(r)
		d = trxd.encode(m, r.random() < 0.5)
		how = "valid"
		x = r.random()
		if x < 0.75:
			d = mutate(r, d)
			how = "mutated"
			if r.random() < 0.3:
				d = mutate(r, d)
		elif x < 0.85:
			d = r.randbytes(r.choice((0, 1, 4, 5, 6, 8, 11, 154, 156, 159, 452)))
			how = "random"
		direction = m["dir"] if r.random() < 0.9 else ("rx" if m["dir"] == "tx" else "tx")
		check_parse(ctx, d, direction, how)
		if k % 4 == 0 and len(d) <= 512:
			ifp.check(ctx, d, direction, r.choice((0, 1)))
		if ctx.too_many():
			return
	bd = cbuild.BuildDir("c04")
	try:
		binary = cbuild.build_trxif(bd)
		total = ctx.scale(4000, 400000)
		done = 0
		while done < total and not ctx.too_many() and ctx.time_left() > 0:
			n = min(10000, total - done)
			cases = c_cases(ctx, r, max(1, n // 50), 50)
			if done == 0:
				ctx.sample("trxcon", render_c(0, cases[0]).decode().split("\n")[1][:120])
			judge_c(ctx, binary, cases)
			done += n
	finally:
		bd.remove()
	ctx.require("encode_checks", 1000)
	ctx.require("parser_accepted_mutated", 500)
	ctx.require("parser_rejected", 500)
	ctx.require("c_bursts_indicated", 500)
	ctx.require("c_requests_sent", 500)
	ctx.require("data_if_accepted", 300)
	ctx.require("data_if_dropped", 300)


def replay(ctx, data):
	w = common.unjson(data["witness"])
	ctx.rule = "replay of one recorded case"
	ctx.seen(0)
	if data["sub"] == "encode":
		check_encode(ctx, w["msg"], w["legacy"])
	elif data["sub"] == "parse":
		ctx.inconclusive_because("parse witnesses store a datagram prefix only; rerun with the same seed")
	else:
		bd = cbuild.BuildDir("c04r")
		try:
			binary = cbuild.build_trxif(bd)
			if "msg" in w:
				judge_c(ctx, binary, [[("D", w["msg"], w["legacy"])]])
			elif "req" in w:
				judge_c(ctx, binary, [[("B", w["req"])]])
		finally:
			bd.remove()

# C06 - Serial link framing (sercomm/HDLC) delivers every message intact.
#
# Real firmware comm/sercomm.c (HOST_BUILD) + real msgb.c/talloc.c under
# ASan+UBSan, driven by op scripts.  Two monitors: a wire-format monitor on
# the octets returned by sercomm_drv_pull(), and a delivery-history checker
# (queue model: lowest DLCI first, FIFO per DLCI, exactly once, identical).

import os
from collections import deque

from vf import common, cbuild

SHARDS = {"quick": 1, "thorough": 16}
FLAG, ESC = 0x7E, 0x7D
RXBUF = 2048
DLCI_MAX = 129          # _SC_DLCI_MAX in sercomm.h (ECHO = 128)
ECHO = 128
ADDR_ESCAPED = (0x00, 0x7D, 0x7E)

MAIN_DLCIS = [1, 2, 3, 4, 5, 9, 10, 31, 32, 33, 64, 93, 94, 95, 124, 127]
FINDING_DLCIS = [0, 4, 5, 125, 126]


def build_target(bd):
	""" The non-HOST_BUILD branch of sercomm.c (256-octet receive buffer), IRQ macros and UART stubbed. """
	st = cbuild.firmware_staging(bd)
	return cbuild.compile_link(bd, "sercomm_drv_target",
		[os.path.join(cbuild.CDIR, "drivers/sercomm_drv.c"),
		 os.path.join(cbuild.FW, "comm/sercomm.c"),
		 os.path.join(cbuild.LIBOSMO, "src/msgb.c"),
		 os.path.join(cbuild.LIBOSMO, "src/talloc.c")],
		includes = [st, os.path.join(cbuild.LIBOSMO, "include"), cbuild.libosmocore_config(bd)],
		defines = ["TARGET_VARIANT"])


SANCOV = ["-fsanitize-coverage=trace-pc-guard,trace-loads,trace-stores"]


def build_irq(bd):
	""" Target variant of sercomm.c + the firmware's static msgb pool + libosmocore msgb.c, each calling back into
	    the driver at every basic block and memory access (where a simulated UART interrupt may preempt them). """
	st = cbuild.firmware_staging(bd)
	inc = [st, os.path.join(cbuild.LIBOSMO, "include"), cbuild.libosmocore_config(bd)]
	objs = [cbuild.compile_obj(bd, src, includes = inc, defines = ["VERIF_IRQ_SIM"], cflags = SANCOV, twin = False)
		for src in (os.path.join(cbuild.FW, "comm/sercomm.c"), os.path.join(cbuild.FW, "comm/msgb.c"),
			os.path.join(cbuild.LIBOSMO, "src/msgb.c"))]
	return cbuild.compile_link(bd, "sercomm_irq_drv", [os.path.join(cbuild.CDIR, "drivers/sercomm_irq_drv.c")] + objs,
		includes = inc, defines = ["VERIF_IRQ_SIM"], twin = False)


def build(tag):
	bd = cbuild.BuildDir(tag)
	binary = cbuild.compile_link(bd, "sercomm_drv",
		[os.path.join(cbuild.CDIR, "drivers/sercomm_drv.c"),
		 os.path.join(cbuild.FW, "comm/sercomm.c"),
		 os.path.join(cbuild.LIBOSMO, "src/msgb.c"),
		 os.path.join(cbuild.LIBOSMO, "src/talloc.c")],
		includes = [os.path.join(cbuild.FW, "include/comm"), os.path.join(cbuild.LIBOSMO, "include"),
			cbuild.libosmocore_config(bd)],
		defines = ["HOST_BUILD"])
	return bd, binary


def hexs(b):
	return b.hex() if b else "-"


def unhex(s):
	return b"" if s == "-" else bytes.fromhex(s)


def rand_payload(r, maxlen = None):
	maxlen = RXBUF - 1 if maxlen is None else min(maxlen, RXBUF - 1)
	k = r.random()
	if k < 0.08:
		n = 0
	elif k < 0.16:
		n = r.choice((1, 2, maxlen - 1, maxlen))
	elif k < 0.75:
		n = r.randint(0, 40)
	else:
		n = r.randint(0, maxlen)
	special = bytes((0x7E, 0x7D, 0x00, 0x5E, 0x5D, 0x20, 0x03))
	mode = r.randrange(4)
	if mode == 0:
		p = bytearray(r.choice(special) for _ in range(n))
	elif mode == 1:
		p = bytearray(r.randbytes(n))
	else:
		p = bytearray(r.randbytes(n))
		for _ in range(min(n, r.randint(1, 12))):
			p[r.randrange(n)] = r.choice(special)
		if n:
			p[0] = r.choice(special) if r.random() < .5 else p[0]
			p[-1] = r.choice(special) if r.random() < .5 else p[-1]
	return bytes(p)


def escape(data):
	out = bytearray()
	for b in data:
		if b in (FLAG, ESC, 0x00):
			out += bytes((ESC, b ^ 0x20))
		else:
			out.append(b)
	return bytes(out)


def gen_case(r, dlcis, finding = False):
	""" -> list of ops.  The generator keeps a tiny stream-state model of its
	    own so that noise and over-long frames are injected between frames. """
	ops = []
	queued = 0          # messages queued and not yet completely pulled (approx.)
	nops = r.randint(5, 40)
	few = r.sample(dlcis, r.randint(1, min(6, len(dlcis))))
	if r.random() < 0.04:
		# a long backlog: hundreds of short messages queued before anything is pulled
		for _ in range(r.choice((255, 256, 257, 300, 520))):
			ops.append(("S", r.choice(few), r.randbytes(r.randint(0, 6))))
		ops.append(("P", r.choice((50, 700, 3000))))
	for _ in range(nops):
		k = r.random()
		if k < 0.5:
			for _ in range(r.choice((1, 1, 2, 3, 6))):
				d = r.choice(few)
				ops.append(("S", d, rand_payload(r, 200 if r.random() < .8 else None)))
				queued += 1
		elif k < 0.8:
			ops.append(("P", r.choice((1, 2, 3, 7, 50, 300, 5000))))
		elif k < 0.84 and not finding:
			# a well-formed frame from outside for an address nobody can have registered (the handler table
			# has 129 entries): dropped without a trace
			ops.append(("DRAIN",))
			d = r.choice((DLCI_MAX, DLCI_MAX, DLCI_MAX + 1, 200, 254, 255))
			ops.append(("G", bytes((FLAG,)) + escape(bytes((d, 0x03)) + rand_payload(r, 60)) + bytes((FLAG,)), "foreign"))
		elif k < 0.9 and not finding:
			ops.append(("DRAIN",))
			n = r.randint(1, 60)
			noise = bytes(b for b in r.randbytes(n) if b != FLAG)
			ops.append(("G", noise, "noise"))
		elif not finding:
			ops.append(("DRAIN",))
			# an over-long frame from outside: payload >= receive buffer
			L = r.choice((RXBUF, RXBUF + 1, RXBUF + 2, r.randint(RXBUF, 3 * RXBUF)))
			body = bytes(b for b in r.randbytes(L + 200) if b != FLAG)[:L]
			d = r.choice(few)
			frame = bytes((FLAG,)) + escape(bytes((d, 0x03)) + body) + bytes((FLAG,))
			ops.append(("G", frame, "overlong"))
	ops.append(("DRAIN",))
	# two plain frames at the end prove that reception is back in sync
	d = r.choice(few)
	ops.append(("S", d, b"sync-1"))
	ops.append(("S", d, b"sync-2"))
	ops.append(("DRAIN",))
	return ops


def render(idx, ops):
	out = ["N %d" % idx]
	for op in ops:
		if op[0] == "S":
			out.append("S %d %s" % (op[1], hexs(op[2])))
		elif op[0] == "P":
			out.append("P %d" % op[1])
		elif op[0] == "DRAIN":
			out.append("P 1000000")
		elif op[0] == "G":
			out.append("G %s" % hexs(op[1]))
		elif op[0] == "U":
			out.append("U %d" % op[1])
	return ("\n".join(out) + "\n").encode()


class Checker:
	""" Queue model + wire-format monitor + delivery matcher for one case. """

	def __init__(self, ctx, registered):
		self.ctx = ctx
		self.reg = set(registered)
		self.queues = {}          # dlci -> deque of payloads
		self.in_frame = False
		self.cur = None           # (dlci, payload) of the frame being pulled
		self.raw = bytearray()    # octets of the current frame between the flags
		self.lost_budget = 0      # frames that may be lost after an over-long frame
		self.known = []           # witnesses classified as the known finding

	def fail(self, what, **kw):
		return (what, kw)

	def next_msg(self):
		for d in sorted(self.queues):
			if self.queues[d]:
				return d, self.queues[d].popleft()
		return None

	def pulled(self, octets, deliveries, n_asked):
		""" Process the octets of one pull op and the D lines printed during it. """
		ctx = self.ctx
		expected_deliveries = []
		for o in octets:
			ctx.count("octets_pulled")
			if not self.in_frame:
				if o != FLAG:
					return self.fail("octet 0x%02x pulled outside a frame (expected the opening flag)" % o)
				self.cur = self.next_msg()
				if self.cur is None:
					return self.fail("a frame is started although no message is queued")
				self.in_frame = True
				self.raw = bytearray()
				continue
			if o == FLAG:
				# closing flag: un-frame and compare with the message the model chose
				raw = bytes(self.raw)
				if raw.endswith(bytes((ESC,))) and (len(raw) < 2 or raw[-2] != ESC):
					pass
				data = bytearray()
				i = 0
				while i < len(raw):
					b = raw[i]
					if b == 0x00:
						return self.fail("unescaped 0x00 inside a frame", frame = raw.hex())
					if b == ESC:
						if i + 1 >= len(raw):
							return self.fail("escape octet directly before the closing flag", frame = raw.hex())
						x = raw[i + 1] ^ 0x20
						if x not in (FLAG, ESC, 0x00):
							return self.fail("escape followed by 0x%02x, which does not un-escape to 7e/7d/00" % raw[i + 1],
								frame = raw.hex())
						ctx.count("escapes_of_%02x" % x)
						data.append(x)
						i += 2
						continue
					data.append(b)
					i += 1
				d, payload = self.cur
				if len(data) < 2 or data[0] != d or data[1] != 0x03 or bytes(data[2:]) != payload:
					return self.fail("frame on the wire is not (DLCI, UI, payload) of the message due next "
						"(lowest DLCI first, FIFO per DLCI)", expected_dlci = d, expected_payload = payload.hex(),
						wire = raw.hex())
				ctx.count("frames")
				ctx.count("frames_dlci_%d" % d)
				if d in self.reg:
					expected_deliveries.append((d, payload))
				else:
					ctx.count("frames_to_unregistered_dlci")
				self.in_frame = False
				self.cur = None
				continue
			self.raw.append(o)
		if len(octets) < n_asked:
			# pull reported "nothing to send": nothing may be queued or in flight
			if self.in_frame or self.next_msg_peek():
				return self.fail("sercomm_drv_pull() returned 0 although a message is queued / in flight")
		# match deliveries (exactly once, same order, identical)
		di = 0
		for (d, payload) in expected_deliveries:
			if di < len(deliveries) and deliveries[di] == (d, payload):
				di += 1
				ctx.count("deliveries_ok")
				self.lost_budget = 0
				continue
			if self.lost_budget > 0:
				# the one frame after an over-long frame may be lost
				self.lost_budget -= 1
				ctx.count("frames_lost_after_overlong")
				continue
			if d in ADDR_ESCAPED:
				# known mechanism: the receiver does not un-escape the address octet, so the
				# frame is read as DLCI 0x7D with the control octet prepended to the payload
				# (one octet longer: a 2047-octet payload then overflows and is dropped)
				garbled = (ESC, bytes((0x03,)) + payload)
				if len(payload) + 1 >= RXBUF or ESC not in self.reg:
					self.known.append({"sent_dlci": d, "payload_len": len(payload), "delivered": None})
					continue
				if di < len(deliveries) and deliveries[di] == garbled:
					di += 1
					self.known.append({"sent_dlci": d, "payload_len": len(payload),
						"delivered": [garbled[0], garbled[1][:16].hex()]})
					continue
			got = deliveries[di] if di < len(deliveries) else None
			return self.fail("message not delivered intact to its DLCI handler",
				expected = [d, payload.hex()], got = None if got is None else [got[0], got[1].hex()])
		if di != len(deliveries):
			got = deliveries[di]
			return self.fail("handler called for something that was not sent (or twice)", got = [got[0], got[1].hex()])
		return None

	def next_msg_peek(self):
		return any(self.queues[d] for d in self.queues)

	def idle(self):
		return not self.in_frame


def check_case(ctx, ops, lines, registered):
	ck = Checker(ctx, registered)
	pos = 0
	for k, op in enumerate(ops):
		if op[0] == "S":
			ck.queues.setdefault(op[1], deque()).append(op[2])
			ctx.count("sendmsg")
			continue
		# collect D lines up to the result line
		dl = []
		res = None
		while pos < len(lines):
			l = lines[pos]
			pos += 1
			if l.startswith("D "):
				_, d, hx = l.split()
				dl.append((int(d), unhex(hx)))
			else:
				res = l
				break
		if res is None:
			return (k, "driver output ends early", {}), ck
		if op[0] in ("P", "DRAIN"):
			if not res.startswith("p "):
				return (k, "unexpected line %r" % res[:60], {}), ck
			n = op[1] if op[0] == "P" else 1000000
			r = ck.pulled(unhex(res[2:]), dl, n)
			if r is not None:
				return (k, r[0], r[1]), ck
		elif op[0] == "G":
			if not ck.idle():
				raise common.HarnessError("generator injected octets inside a frame")
			if op[2] == "foreign":
				ctx.count("frames_for_addresses_beyond_the_handler_table")
				if dl:
					return (k, "a frame for an address without handler caused a delivery", {"frame": op[1][:40].hex(),
						"got": [dl[0][0], dl[0][1].hex()]}), ck
			elif op[2] == "noise":
				ctx.count("noise_runs")
				if dl:
					return (k, "flag-free noise between frames caused a delivery", {"noise": op[1].hex(),
						"got": [dl[0][0], dl[0][1].hex()]}), ck
			else:
				ctx.count("overlong_frames")
				if dl:
					return (k, "an over-long frame was delivered to a handler", {"got_len": len(dl[0][1])}), ck
				ck.lost_budget = 1
	if pos != len(lines):
		return (len(ops), "driver printed extra lines", {"extra": lines[pos:pos + 3]}), ck
	if any(ck.queues[d] for d in ck.queues) or ck.in_frame:
		raise common.HarnessError("case ends with queued messages")
	return None, ck


def judge(ctx, binary, cases, registered, sub):
	scripts = [render(i, ops) for i, ops in enumerate(cases)]
	outputs, crashes = cbuild.run_cases(binary, scripts, args = [str(d) for d in registered])
	crashed = {c[0]: c for c in crashes}
	for i, ops in enumerate(cases):
		ctx.seen(common.h64(scripts[i]))
		if i in crashed:
			_, rc, err, rep = crashed[i]
			ctx.violation(sub, {"registered": registered, "script": scripts[i].decode()[:20000], "stderr": err[-1500:]},
				what = "driver died in this case (rc=%s): %s" % (rc, rep or ("MSGB/abort" if "PANIC" in err else "no sanitizer report")))
			continue
		if outputs[i] is None:
			ctx.inconclusive_because("case %d never ran" % i)
			continue
		res, ck = check_case(ctx, ops, outputs[i], registered)
		ctx.count("cases")
		for kw in ck.known:
			ctx.violation(sub, kw, mechanism = "escaped-address-octet",
				what = "message sent on a DLCI whose address octet is escaped is not delivered to that DLCI")
		if res is not None:
			k, what, kw = res
			w = {"registered": registered, "script": scripts[i].decode()[:20000], "failing_op_index": k}
			w.update(kw)
			ctx.violation(sub, w, what = what)
		if ctx.too_many():
			break


# ---- interrupt context -------------------------------------------------------------------------

IRQ_DLCIS = [1, 2, 3, 5, 9, 10, 31, 64, 127]
FIQ_DLCIS = [4, 6]          # used by the simulated FIQ only, so that FIFO per DLCI stays decidable
PREEMPTED_AT = set()


def irq_payload(r):
	k = r.random()
	if k < 0.1:
		return b""
	if k < 0.4:
		return bytes(r.choice((FLAG, ESC, 0x00, 0x5e, 0x5d, 0x20, r.randrange(256))) for _ in range(r.randint(1, 12)))
	return r.randbytes(r.randint(1, 40) if k < 0.9 else r.randint(100, 200))


def frame(dlci, payload):
	return bytes((FLAG,)) + escape(bytes((dlci, 0x03)) + payload) + bytes((FLAG,))


def unframe(wire):
	""" Reference de-framer for the octets put on the wire. -> (frames [(dlci, payload)], error or None) """
	out = []
	i = 0
	n = len(wire)
	while i < n:
		if wire[i] != FLAG:
			return out, "octet 0x%02x on the wire outside a frame (offset %d)" % (wire[i], i)
		j = i + 1
		data = bytearray()
		while True:
			if j >= n:
				return out, "the wire ends inside a frame although everything was drained"
			b = wire[j]
			if b == FLAG:
				break
			if b == 0x00:
				return out, "unescaped 0x00 inside a frame (offset %d)" % j
			if b == ESC:
				if j + 1 >= n or (wire[j + 1] ^ 0x20) not in (FLAG, ESC, 0x00):
					return out, "escape octet not followed by an escaped 7e/7d/00 (offset %d)" % j
				data.append(wire[j + 1] ^ 0x20)
				j += 2
				continue
			data.append(b)
			j += 1
		if len(data) < 2 or data[1] != 0x03:
			return out, "frame without address/control octets (offset %d): %s" % (i, bytes(data[:8]).hex())
		out.append((data[0], bytes(data[2:])))
		i = j + 1
	return out, None


def irq_scenario(r, small = False):
	""" -> (main-context ops, inbound messages).  At most 20 messages are in flight before a drain
	    (the firmware's pool has 32 buffers). """
	ops = []
	inbound = []
	few = r.sample(IRQ_DLCIS, r.randint(1, 4))
	nmsg = r.randint(1, 3) if small else r.randint(2, 14)
	nin = r.randint(0, 1) if small else r.randint(0, 5)
	for _ in range(nin):
		d = ECHO if r.random() < 0.35 else r.choice(few)
		inbound.append((d, irq_payload(r) if d != ECHO else r.randbytes(r.randint(0, 30))))
	stream = b"".join(frame(d, p) for d, p in inbound)
	if not small and r.random() < 0.15:
		# more frames than the firmware has buffers (32), none of which may keep one: frames nobody has a handler for,
		# or over-long frames (each followed by a frame that may be lost with it)
		if r.random() < 0.5:
			stream += b"".join(frame(r.choice((77, 129, 200)), r.randbytes(r.randint(0, 8))) for _ in range(40))
		else:
			for _ in range(40):
				body = bytes(b for b in r.randbytes(400) if b != FLAG)[:r.choice((256, 257, 300))]
				stream += frame(r.choice(few), body) + frame(200, b"x")
	if stream:
		ops.append(("F", stream))
	for _ in range(nmsg):
		ops.append(("S", r.choice(few), irq_payload(r)))
		if not small and r.random() < 0.25:
			ops.append(("X", r.choice((1, 2, 5, 64))) if r.random() < 0.6 else ("Y", r.choice((1, 3, 64))))
	ops.append(("Z",))
	if not small and r.random() < 0.5:
		# layer 1's frame interrupt (FIQ) sends messages of its own while the UART interrupt handler runs
		fiq = [(r.choice((1, 1, 2, 3, 5, 9, 20, 60)), r.choice(FIQ_DLCIS), r.randbytes(r.randint(0, 12))) for _ in range(r.randint(1, 10))]
		ops.insert(0, ("Q", fiq))
	return ops, inbound


def irq_render(idx, plan, ops):
	out = ["N %d" % idx, "I " + " ".join("%d:%s%d" % p for p in plan)]
	for op in ops:
		if op[0] == "S":
			out.append("S %d %s" % (op[1], hexs(op[2])))
		elif op[0] == "F":
			out.append("F %s" % hexs(op[1]))
		elif op[0] == "Q":
			out.append("Q " + " ".join("%d:%d:%s" % (g, d, hexs(p)) for g, d, p in op[1]))
		elif op[0] in "XY":
			out.append("%s %d" % op)
		else:
			out.append("Z")
	return ("\n".join(out) + "\n").encode()


def irq_judge(ctx, plan, ops, inbound, lines, script):
	""" Exactly once, intact, FIFO per DLCI on the wire; inbound messages delivered in order; echoes sent back. """
	w = {"script": script.decode()[:6000], "output_tail": lines[-8:]}
	wire = None
	dl = []
	stats = None
	fiq_fired = []
	for l in lines:
		if l.startswith("D "):
			p = l.split(" ")
			dl.append((int(p[1]), unhex(p[2])))
		elif l.startswith("W "):
			wire = unhex(l[2:])
		elif l.startswith("e "):
			stats = [int(x) for x in l.split()[1:]]
		elif l.startswith("q "):
			fiq_fired.append(int(l.split()[1]))
			ctx.count("fiq_messages_sent_inside_the_uart_interrupt_handler")
		elif l.startswith("i "):
			p = l.split()
			ctx.count("interrupts_inside_main_context_code")
			ctx.count("interrupt:%s" % p[1])
			PREEMPTED_AT.add(p[3])
		elif l.startswith("STUCK"):
			ctx.violation("interrupt", w, what = "interrupts are still masked after the main context has left sercomm "
				"(a critical section is not closed): no UART interrupt is served any more, nothing is transmitted or received")
			return
		elif l.startswith("PANIC"):
			ctx.violation("interrupt", w, what = "firmware gives up under interrupt load with <= 20 messages in flight: %s" % l[:80])
			return
	if wire is None or stats is None:
		ctx.violation("interrupt", w, what = "the driver never reached the drained state")
		return
	ctx.count("callbacks_unmasked", stats[0])
	ctx.count("callbacks_masked", stats[1])
	want_rx = [(d, p) for d, p in inbound if d != ECHO]
	if dl != want_rx:
		ctx.violation("interrupt", dict(w, expected = [[d, p.hex()] for d, p in want_rx][:6], got = [[d, p.hex()] for d, p in dl][:6]),
			what = "inbound messages are not delivered intact, once and in order while the main context is sending")
		return
	frames, err = unframe(wire)
	if err:
		ctx.violation("interrupt", dict(w, wire = wire.hex()[:600]), what = "octets on the wire are not well-formed frames: " + err)
		return
	sent = {}
	for op in ops:
		if op[0] == "S":
			sent.setdefault(op[1], []).append(op[2])
		elif op[0] == "Q":
			for k in fiq_fired:
				sent.setdefault(op[1][k][1], []).append(op[1][k][2])
	for d, p in inbound:
		if d == ECHO:
			sent.setdefault(ECHO, []).append(p)
	got = {}
	for d, p in frames:
		got.setdefault(d, []).append(p)
	if got != sent:
		diff = sorted(d for d in set(got) | set(sent) if got.get(d) != sent.get(d))
		d = diff[0]
		ctx.violation("interrupt", dict(w, dlci = d, queued = [p.hex() for p in sent.get(d, [])][:8], on_wire = [p.hex() for p in got.get(d, [])][:8]),
			what = "messages queued for DLCI %d do not appear on the wire exactly once, intact and in FIFO order "
				"when the UART interrupt preempts the main context" % d)
		return
	ctx.count("interrupt_cases_ok")
	ctx.count("messages_through_interrupt_cases", sum(len(v) for v in sent.values()) + len(want_rx))


def interrupts(ctx, r, bd):
	binary = build_irq(bd)
	reg = [str(d) for d in IRQ_DLCIS]

	def batch(cases, sub):
		scripts = [irq_render(i, plan, ops) for i, (plan, ops, inbound) in enumerate(cases)]
		outputs, crashes = cbuild.run_cases(binary, scripts, args = reg, timeout = 300)
		bad = {c[0] for c in crashes}
		for c in crashes:
			if c[1] == 3:
				continue	# PANIC line: judged below
			ctx.violation("interrupt", {"script": scripts[c[0]].decode()[:6000], "stderr": c[2][-1500:]},
				what = "sercomm dies or hangs when the UART interrupt preempts the main context (rc=%s): %s" % (c[1], c[3] or "no sanitizer report"))
		for i, (plan, ops, inbound) in enumerate(cases):
			if outputs[i] is None or (i in bad and not any(l.startswith("PANIC") for l in outputs[i])):
				continue
			ctx.seen(common.h64(scripts[i]))
			ctx.count("interrupt_cases")
			ctx.count("interrupt_cases:" + sub)
			irq_judge(ctx, plan, ops, inbound, outputs[i], scripts[i])

	# 1. small scenarios, every single preemption point (Tx and Rx interrupt) enumerated
	for k in range(ctx.scale(6, 12)):
		ops, inbound = irq_scenario(r, small = True)
		probe = irq_render(0, [], ops)
		rc, out, err = cbuild.run(binary, probe, args = reg)
		ev = [int(l.split()[1]) for l in out.decode().splitlines() if l.startswith("e ")]
		if rc != 0 or not ev:
			ctx.violation("interrupt", {"script": probe.decode()[:3000], "stderr": err.decode(errors = "replace")[-1500:]},
				what = "sercomm fails without any interrupt inside main-context code (rc=%s)" % rc)
			return
		ctx.count("preemption_points_enumerated", ev[0])
		cases = []
		for point in range(1, ev[0] + 1):
			if not ctx.mine(point):
				continue
			cases.append(([(point, "T", r.choice((1, 4, 64)))], ops, inbound))
			if inbound:
				cases.append(([(point, "R", r.choice((1, 64, 400)))], ops, inbound))
			cases.append(([(point, "T", 64), (r.randint(1, 12), "T", 64), (r.randint(1, 12), "R", 64)], ops, inbound))
		batch(cases, "every-point")
		if ctx.too_many():
			return
	# 2. random scenarios with dense random interrupt plans
	total = ctx.scale(600, 40000)
	done = 0
	while done < total and not ctx.too_many() and ctx.time_left() > 0:
		cases = []
		for _ in range(min(500, total - done)):
			ops, inbound = irq_scenario(r)
			plan = []
			for _ in range(r.randint(1, 60)):
				plan.append((r.choice((1, 1, 2, 3, 5, 8, 13, 30, 80)) if r.random() < .8 else r.randint(1, 400),
					r.choice("TTR"), r.choice((1, 2, 7, 64, 300))))
			cases.append((plan, ops, inbound))
		batch(cases, "random")
		done += len(cases)
	ctx.count("distinct_code_locations_preempted_per_shard", len(PREEMPTED_AT))


# ---- osmocon's glue around sercomm (host side) ---------------------------------------------------

OSMOCON_C = os.path.join(common.REPO, "src/host/osmocon/osmocon.c")
GLUE_FUNCS = ("hdlc_send_to_phone", "handle_sercomm_write", "hdlc_tool_cb")
TOOL_DLCIS = [1, 2, 3, 5, 9, 10, 31, 64, 127]
TOOL_CONNS = {1: 1, 2: 2, 3: 3, 5: 1, 9: 2, 10: 1, 31: 1, 64: 3, 127: 1}      # tools connected to each DLCI's socket
NO_TOOL_DLCIS = [6, 7, 100]


def extract_glue():
	""" The text of osmocon.c's three sercomm glue functions (osmocon.c as a whole needs a serial port,
	    libosmocore's select loop and the downloaders).  -> text or None when a function is not found. """
	import re
	with open(OSMOCON_C) as f:
		lines = f.read().split("\n")
	out = []
	for name in GLUE_FUNCS:
		start = next((i for i, l in enumerate(lines) if re.match(r"^static\s+[\w\s\*]*\b%s\s*\(" % name, l)), None)
		if start is None:
			return None
		end = next((i for i in range(start, len(lines)) if lines[i].startswith("}")), None)
		if end is None:
			return None
		out.append("\n".join(lines[start:end + 1]))
	return "\n\n".join(out)


def build_glue(bd):
	text = extract_glue()
	if text is None:
		return None
	tu = os.path.join(bd.path, "osmocon_glue_tu.c")
	with open(tu, "w") as f:
		f.write("/* generated: function text from %s */\n#define GLUE_PART_1\n#include \"osmocon_glue_main.c\"\n#undef GLUE_PART_1\n" % OSMOCON_C)
		f.write(text + "\n")
		f.write("#define GLUE_PART_2\n#include \"osmocon_glue_main.c\"\n")
	return cbuild.compile_link(bd, "osmocon_glue_drv",
		[tu, os.path.join(cbuild.FW, "comm/sercomm.c"), os.path.join(cbuild.LIBOSMO, "src/msgb.c"),
		 os.path.join(cbuild.LIBOSMO, "src/talloc.c")],
		includes = [os.path.join(cbuild.CDIR, "drivers"), os.path.join(cbuild.FW, "include/comm"),
			os.path.join(cbuild.LIBOSMO, "include"), cbuild.libosmocore_config(bd)],
		defines = ["HOST_BUILD"])


def osmocon_glue(ctx, r, bd):
	""" Messages handed to osmocon's hdlc_send_to_phone() come out of its handle_sercomm_write() as well-formed
	    frames and - looped back into the receiver - reach hdlc_tool_cb() intact: length prefix + payload per tool. """
	try:
		binary = build_glue(bd)
	except cbuild.BuildFailed:
		# the functions exist but no longer fit the stand-in declarations around them (a changed signature,
		# a new helper): this sub-workload cannot speak, the others still decide
		ctx.count("osmocon_glue_not_buildable_with_the_stand_ins")
		return
	if binary is None:
		ctx.count("osmocon_glue_functions_not_found")
		return
	cases = []
	for _ in range(ctx.scale(150, 6000)):
		ops = []
		for _ in range(r.randint(1, 12)):
			d = r.choice(TOOL_DLCIS + TOOL_DLCIS + NO_TOOL_DLCIS)
			k = r.random()
			n = r.choice((0, 1, 2, 255, 256, 257, 510, 511, 512)) if k < 0.3 else r.choice((513, 514, 600)) if k < 0.36 else r.randint(0, 300)
			body = bytes(r.choice((FLAG, ESC, 0x00, r.randrange(256))) for _ in range(n)) if r.random() < 0.3 else r.randbytes(n)
			ops.append(("T", d, body))
			if r.random() < 0.25:
				ops.append(("W",))
		ops.append(("W",))
		cases.append(ops)
	scripts = [("N %d\n" % i + "".join("T %d %s\n" % (op[1], hexs(op[2])) if op[0] == "T" else "W\n" for op in ops)).encode()
		for i, ops in enumerate(cases)]
	outputs, crashes = cbuild.run_cases(binary, scripts, args = ["%d:%d" % (d, TOOL_CONNS[d]) for d in TOOL_DLCIS])
	for c in crashes:
		ctx.violation("osmocon-glue", {"script": scripts[c[0]].decode()[:6000], "stderr": c[2][-1500:]},
			what = "osmocon's sercomm glue dies (rc=%s): %s" % (c[1], c[3] or "no sanitizer report"))
	bad = {c[0] for c in crashes}
	for i, ops in enumerate(cases):
		out = outputs[i]
		if out is None or i in bad:
			continue
		ctx.seen(common.h64(scripts[i]))
		ctx.count("osmocon_glue_cases")
		w = {"script": scripts[i].decode()[:4000]}
		pos = 0
		queues = {}
		err = None
		for op in ops:
			if op[0] == "T":
				if len(op[2]) <= 512:
					queues.setdefault(op[1], []).append(op[2])
					ctx.count("osmocon_messages")
				else:
					ctx.count("osmocon_oversized_refused")
				continue
			wire = b""
			tool = {}
			done = False
			while pos < len(out):
				l = out[pos]
				pos += 1
				if l.startswith("w "):
					wire += unhex(l[2:])
				elif l.startswith("t "):
					p = l.split(" ")
					key = (int(p[1]), int(p[2]))
					tool[key] = tool.get(key, b"") + unhex(p[3])
				elif l.startswith("e "):
					if l != "e 0":
						err = "writing is still enabled after the queue was drained"
					done = True
					break
			if not done:
				err = "the driver did not finish draining"
			if err:
				break
			want_wire = b"".join(frame(d, p) for d in sorted(queues) for p in queues[d])
			if wire != want_wire:
				frames, ferr = unframe(wire)
				err = "octets written to the serial line differ from the queued messages framed lowest DLCI first (%s)" % (
					ferr or "%d frames, %d messages queued" % (len(frames), sum(map(len, queues.values()))))
				w["wire"] = wire[:300].hex()
				break
			for d in TOOL_DLCIS:
				want = b"".join(len(p).to_bytes(2, "big") + p for p in queues.get(d, []))
				for k in range(TOOL_CONNS[d]):
					if tool.get((d, k), b"") != want:
						err = "tool connection %d of %d on DLCI %d received %d octets, expected %d (16-bit length prefix + payload per message)" % (
							k + 1, TOOL_CONNS[d], d, len(tool.get((d, k), b"")), len(want))
						w["received"] = tool.get((d, k), b"")[:200].hex()
						break
				if err:
					break
			if err:
				break
			if any(d not in TOOL_DLCIS or k >= TOOL_CONNS[d] for (d, k) in tool):
				err = "a tool connection received something for a DLCI it does not serve"
				break
			queues = {}
		if err:
			ctx.violation("osmocon-glue", w, what = "osmocon: " + err)
		else:
			ctx.count("osmocon_glue_cases_ok")


def echo_cases(r, n):
	""" A frame for the echo DLCI arriving from outside is queued for
	    transmission again, intact (sercomm_sendmsg is its handler). """
	out = []
	for _ in range(n):
		payload = rand_payload(r, 300)
		frame = bytes((FLAG,)) + escape(bytes((ECHO, 0x03)) + payload) + bytes((FLAG,))
		out.append((payload, [("G", frame, "echo"), ("U", 100000)]))
	return out


def run(ctx):
	ctx.rule = ("random op scripts: bursts of sercomm_sendmsg on 1-6 registered DLCIs with payloads of 0..2047 octets weighted towards "
		"7e/7d/00/5e/5d/20 and the length boundaries, pulls of 1..5000 octets looped octet by octet into the receiver, flag-free noise "
		"and over-long frames (2048..6144 octets) injected between frames, each case ending with two plain frames; distinct = distinct "
		"scripts by hash; all non-trivial")
	ctx.assume("both branches of sercomm.c are run on the host: HOST_BUILD (2048-octet receive buffer) and the target branch (256 octets) with the IRQ lock macros and the UART stubbed; interleavings are those of calls, not of target interrupts")
	global RXBUF
	bd, binary = build("c06")
	try:
		r = ctx.rng("c06")
		try:
			target_binary = build_target(bd)
		except cbuild.BuildFailed as e:
			target_binary = None
			ctx.count("target_variant_not_buildable")
			ctx.extra["target_variant_build_log"] = e.log[-400:]
		first = True
		for variant, vbin, share in (("host-2048", binary, 0.7), ("target-256", target_binary, 0.3)):
			if vbin is None:
				continue
			RXBUF = 2048 if variant == "host-2048" else 256
			total = int(ctx.scale(2500, 300000) * share)
			done = 0
			while done < total and not ctx.too_many() and ctx.time_left() > 0:
				n = min(1000, total - done)
				nf = max(1, n // 20)
				cases = [gen_case(r, MAIN_DLCIS) for _ in range(n - nf)]
				if first:
					ctx.sample("script", render(0, cases[0]).decode()[:1500].split("\n"))
					first = False
				judge(ctx, vbin, cases, MAIN_DLCIS, "main/" + variant)
				# DLCIs whose address octet needs escaping: kept apart (known finding)
				fcases = [gen_case(r, FINDING_DLCIS, finding = True) for _ in range(nf)]
				judge(ctx, vbin, fcases, FINDING_DLCIS, "escaped-dlci/" + variant)
				done += n
				ctx.count("cases:" + variant, n)
		RXBUF = 2048
		# echo DLCI
		ec = echo_cases(r, ctx.scale(100, 2000))
		scripts = [render(i, ops) for i, (_, ops) in enumerate(ec)]
		outputs, crashes = cbuild.run_cases(binary, scripts, args = ["5"])
		for c in crashes:
			ctx.violation("echo", {"script": scripts[c[0]].decode()[:4000], "stderr": c[2][-1500:]},
				what = "driver died in the echo case: %s" % c[3])
		for i, (payload, ops) in enumerate(ec):
			if outputs[i] is None or i in {c[0] for c in crashes}:
				continue
			ctx.seen(common.h64(scripts[i]))
			ctx.count("echo_cases")
			want = bytes((FLAG,)) + escape(bytes((ECHO, 0x03)) + payload) + bytes((FLAG,))
			got = [l for l in outputs[i] if l.startswith("p ")]
			if len(got) != 1 or unhex(got[0][2:]) != want:
				ctx.violation("echo", {"payload": payload.hex(), "output": outputs[i][:4]},
					what = "echo DLCI does not send back the received message intact")
		RXBUF = 256
		interrupts(ctx, ctx.rng("c06-irq"), bd)
		RXBUF = 2048
		osmocon_glue(ctx, ctx.rng("c06-osmocon"), bd)
	finally:
		bd.remove()
	ctx.require("interrupt_cases_ok", 300)
	ctx.require("fiq_messages_sent_inside_the_uart_interrupt_handler", 100)
	ctx.require("interrupts_inside_main_context_code", 1000)
	ctx.require("callbacks_masked", 1000)
	ctx.require("cases", 100)
	ctx.require("frames", 1000)
	ctx.require("deliveries_ok", 1000)
	ctx.require("noise_runs", 20)
	ctx.require("overlong_frames", 20)
	ctx.require("frames_for_addresses_beyond_the_handler_table", 20)
	ctx.require("escapes_of_7e", 50)
	ctx.require("escapes_of_7d", 50)
	ctx.require("escapes_of_00", 50)
	ctx.require("echo_cases", 20)
	ctx.require("cases:host-2048", 100)
	ctx.require("cases:target-256", 100)


def replay(ctx, data):
	ctx.rule = "replay of one recorded op script"
	w = data["witness"]
	if "script" not in w:
		ctx.inconclusive_because("known-finding witnesses carry no script; rerun the check with the same seed")
		return
	global RXBUF
	bd, binary = build("c06r")
	try:
		if "target-256" in data["sub"]:
			binary = build_target(bd)
			RXBUF = 256
		reg = w["registered"]
		ops = []
		for line in w["script"].splitlines():
			p = line.split()
			if not p or p[0] == "N":
				continue
			if p[0] == "S":
				ops.append(("S", int(p[1]), unhex(p[2])))
			elif p[0] == "P":
				ops.append(("P", int(p[1])) if int(p[1]) != 1000000 else ("DRAIN",))
			elif p[0] == "G":
				b = unhex(p[1])
				ops.append(("G", b, ("foreign" if len(b) < 200 else "overlong") if FLAG in b else "noise"))
		judge(ctx, binary, [ops], reg, data["sub"])
		ctx.seen(1)
	finally:
		bd.remove()

# C14 - No datagram or capture content can crash the tools.
#
# Escape monitor: hostile input is injected into valid sessions of the real
# simulator; any exception leaving recv_data_msg(), ctrl_if.handle_rx(),
# DATADumpFile.parse_*() or the following clock tick is a violation, as is a
# probe (valid command + valid burst) misbehaving afterwards.  The real
# trxcon socket callbacks are fed hostile datagrams under ASan+UBSan.

import io
import threading
import time
import traceback

from vf import common, radio, sim, msgs, cbuild, vnet
from vf.ref import trxd, trxc

common.use_toolkit()
import data_dump   # noqa: E402

SHARDS = {"quick": 1, "thorough": 16}

KNOWN_FORMS = {  # verb -> argument counts with integer arguments
	"POWERON": (0,), "POWEROFF": (0,), "RXTUNE": (1,), "TXTUNE": (1,), "MEASURE": (1,), "SETFORMAT": (1,), "SETPOWER": (1,),
	"NOMTXPOWER": (0,), "RFMUTE": (1,), "SETTA": (1,), "FAKE_TOA": (1, 2), "FAKE_RSSI": (1, 2), "FAKE_CI": (1, 2), "FAKE_DROP": (1, 2),
	"FAKE_TRXC_DELAY": (1,), "SETFH": tuple(range(4, 140)),
}
BAD_NUM = ["abc", "1.5", "0x10", "1e3", "--1", "NaN", "-", "+", "12abc", "one", "0b1", "١٢x"]
HUGE = ["9" * 400, "١٢", str(2**31), str(-2**31 - 1), str(2**63), str(-2**63), str(10**30), "-1", "-128", "-32769", "65536", "4294967296"]


def hostile_ctrl(r):
	""" -> (payload bytes, kind, parsed (verb, args) if it is a well-formed command else None) """
	k = r.randrange(12)
	verb = r.choice(list(KNOWN_FORMS) + ["SETSLOT", "XYZZY"])
	argc = r.choice(KNOWN_FORMS.get(verb, (0, 1, 2))[:6])
	if k == 0:
		return r.randbytes(r.randint(0, 600)), "random octets", None
	if k == 1:
		return b"CMD " + bytes(r.choice((0xff, 0xfe, 0x80, 0xc3, 0xe2)) for _ in range(r.randint(1, 8))) + b"\0", "non-UTF-8", None
	if k == 2:
		return r.choice((b"CMD", b"CMD ", b"CMD  ", b"CMD\0", b"CMD \0", b"CMD   \0", b"CMD\0\0\0", b"CMDPOWERON\0")), "only CMD", None
	if k == 3:
		args = [str(r.randint(0, 5)) for _ in range(argc)]
		return ("CMD " + " ".join([verb] + args)).encode(), "no NUL", (verb, args)
	if k == 4:
		# non-numeric argument where a number is expected
		argc = max(1, argc)
		args = [str(r.randint(0, 5)) for _ in range(argc)]
		args[r.randrange(argc)] = r.choice(BAD_NUM)
		return ("CMD " + " ".join([verb] + args) + "\0").encode(), "non-numeric argument", None
	if k == 5:
		args = [r.choice(HUGE) for _ in range(argc)]
		return ("CMD " + " ".join([verb] + args) + "\0").encode(), "huge/negative arguments", (verb, args)
	if k == 6:
		n = r.choice((0, 1, 3, 5, 9, 64))
		args = [str(r.randint(-3, 3)) for _ in range(n)]
		return ("CMD " + " ".join([verb] + args) + "\0").encode(), "wrong argument count", (verb, args)
	if k == 7:
		# thresholds, periods and versions at hostile values
		verb = r.choice(("FAKE_TOA", "FAKE_CI", "FAKE_RSSI", "FAKE_DROP", "SETFORMAT", "SETFH", "SETTA", "FAKE_TRXC_DELAY"))
		if verb == "SETFH":
			args = [r.choice(("64", "255", "-1", "1000", "63")), r.choice(("0", "-1", "64", "1000")), "935000", "890000"]
		elif verb == "SETFORMAT":
			args = [r.choice(("-1", "16", "255", "2", "15"))]
		elif verb == "FAKE_TRXC_DELAY":
			args = [r.choice(("-5", "0", "3"))]
		elif verb == "SETTA":
			args = [r.choice(("-200", "200", "100000"))]
		else:
			args = [r.choice(("0", "5", "-70")), r.choice(("-1", "-5", "-100", "0", "70000"))]
		return ("CMD " + " ".join([verb] + args) + "\0").encode(), "hostile threshold/period/version", (verb, args)
	if k == 8:
		body = " ".join([verb] + [str(r.randint(0, 9)) for _ in range(argc)])
		b = bytearray(("CMD " + body + "\0").encode())
		for _ in range(r.randint(1, 4)):
			b[r.randrange(len(b))] ^= 1 << r.randrange(8)
		return bytes(b), "bit flips", None
	if k == 9:
		return ("CMD " + verb + "  " + "  ".join(str(r.randint(0, 9)) for _ in range(argc + 1)) + " \0").encode(), "double spaces", None
	if k == 10:
		return ("CMD " + verb + " " + " ".join("1" for _ in range(r.choice((200, 300, 2000)))) + "\0").encode(), "very long", None
	return ("CMD\t" + verb + "\n\0").encode(), "other whitespace", None


def hostile_data(r):
	m = trxd.rand_tx(r)
	d = bytearray(trxd.encode(m))
	k = r.randrange(8)
	if k == 0:
		return r.randbytes(r.randint(0, 600)), "random octets"
	if k == 1:
		return bytes(d[:r.randrange(len(d))]), "truncated"
	if k == 2:
		for _ in range(r.randint(1, 6)):
			d[r.randrange(len(d))] ^= 1 << r.randrange(8)
		return bytes(d), "bit flips"
	if k == 3:
		d[0] = (r.randrange(2, 16) << 4) | (d[0] & 0xf)
		return bytes(d), "unknown version"
	if k == 4:
		d[0] ^= 0x10
		return bytes(d), "other known version"
	if k == 5:
		return bytes(d[:6]) + r.randbytes(r.choice((0, 1, 147, 149, 150, 443, 445, 446, 500, 506))), "odd burst length"
	if k == 6:
		return bytes(d) + r.randbytes(r.randint(1, 60)), "trailing octets"
	d[1:5] = (0xffffffff).to_bytes(4, "big")
	return bytes(d), "frame number beyond the hyperframe"


def tb(e):
	return "".join(traceback.format_exception(type(e), e, e.__traceback__))[-1200:]


REESTABLISH = ["RFMUTE 0", "SETPOWER 0", "SETTA 0", "FAKE_TOA 0 0", "FAKE_RSSI -60 -1", "FAKE_CI 90 0",
	"FAKE_TRXC_DELAY 0"]
DROPS = ["FAKE_DROP 0", "FAKE_DROP 0", "FAKE_DROP 40 3", "FAKE_DROP 25", "FAKE_DROP 60 2"]   # a loss simulation may be in progress


def session(ctx, r, idx):
	specs = [{"base_port": 5700, "name": "A"}, {"base_port": 6700, "name": "B"}]
	bench = radio.Bench(r.getrandbits(30), specs)
	log = []
	try:
		for i, (rx, tx) in enumerate([(890000, 935000), (935000, 890000)]):
			bench.cmd(i, "RXTUNE %d" % rx)
			bench.cmd(i, "TXTUNE %d" % tx)
			bench.cmd(i, "SETFORMAT %d" % r.choice((0, 1)))
			bench.cmd(i, "POWERON")
			bench.cmd(i, r.choice(DROPS))
	except common.HarnessError as e:
		# no hostile input yet: the transceiver does not even serve the valid commands of the set-up
		ctx.violation("probe", {"phase": "set-up with valid commands"}, what = "valid command not served: %s" % e)
		return
	fn = r.randrange(trxd.HYPERFRAME)
	for step in range(r.randint(10, 30)):
		i = r.randrange(2)
		node = bench.nodes[i]
		w = {"history": log[-10:]}
		dirty = False
		poisoned = False
		if r.random() < 0.55:
			payload, kind, parsed = hostile_ctrl(r)
			log.append("%s CTRL <- %s: %r" % (specs[i]["name"], kind, payload[:60]))
			ctx.count("ctrl:%s" % kind)
			ctx.seen(hash(("c", payload)))
			node.l1_ctrl.sendto(payload, node.ctrl_port)
			try:
				node.trx.ctrl_if.handle_rx()
			except Exception as e:
				ctx.violation("ctrl-escape", dict(w, datagram = payload[:120].hex(), kind = kind, traceback = tb(e)),
					what = "%s escapes CTRLInterface.handle_rx() on a %s datagram" % (type(e).__name__, kind))
				return
			rsp = [d for d, _ in node.l1_ctrl.take_all()]
			if len(rsp) > 1:
				ctx.violation("ctrl-reply", dict(w, datagram = payload[:120].hex()), what = "%d replies to one datagram" % len(rsp))
				return
			well_formed = parsed is not None and payload.startswith(b"CMD ") and all(trxc.is_intlit(a) for a in parsed[1])
			if well_formed:
				# goes through the protocol model like any other command
				snap = dict(bench.models[i].__dict__)
				mst, _ = trxc.apply(bench.models[i], parsed[0], parsed[1], bench.models)
				if parsed[0] == "FAKE_DROP" and mst == 0 and len(parsed[1]) in (1, 2):
					# (only the two documented forms set a budget; other argument counts are acknowledged and ignored)
					bench.budgets[i].set(bench.models[i].drop_amount, bench.models[i].drop_period)
				if len(rsp) != 1:
					ctx.violation("ctrl-reply", dict(w, datagram = payload[:120].hex()), what = "well-formed command not answered")
					return
				p = trxc.parse_response(rsp[0])
				hostile_value = (parsed[0] in ("FAKE_TOA", "FAKE_CI") and len(parsed[1]) == 2 and int(parsed[1][1]) < 0) or \
					(parsed[0] == "FAKE_TRXC_DELAY" and len(parsed[1]) == 1 and not 0 <= int(parsed[1][0]) <= 60000) or \
					(parsed[0] == "SETFH" and len(parsed[1]) >= 4 and not 0 <= int(parsed[1][0]) <= 63)
				if hostile_value:
					# not defined by the protocol: an error status, or acceptance that does no harm later
					if p is not None and p[1] != 0:
						bench.models[i].__dict__.update(snap)     # refused: nothing may have changed
					else:
						poisoned = True
					ctx.count("hostile_values_answered_%s" % ("error" if p and p[1] != 0 else "ok"))
				elif p is None or (isinstance(mst, int) and p[1] != mst):
					ctx.violation("ctrl-reply", dict(w, datagram = payload[:120].hex(), reply = rsp[0][:80].hex(), expected_status = mst),
						what = "hostile but well-formed %s answered %r" % (parsed[0], None if p is None else p[1]))
					return
			elif rsp:
				ctx.count("malformed_answered")
				dirty = True
				p = trxc.parse_response(rsp[0])
				txt = payload[4:].split(b"\0")[0]
				toks = txt.decode("ascii", "replace").strip().split(" ")
				if kind == "non-numeric argument" and toks and toks[0] in KNOWN_FORMS and (len(toks) - 1) in KNOWN_FORMS[toks[0]] \
						and "" not in toks and any(not trxc.is_intlit(t) for t in toks[1:]):
					if p is None or p[1] == 0:
						ctx.violation("ctrl-reply", dict(w, datagram = payload[:120].hex(), reply = rsp[0][:80].hex()),
							what = "a non-numeric argument to %s is acknowledged with status 0" % toks[0])
						return
			else:
				ctx.count("malformed_ignored")
			if dirty:
				# a datagram beginning with CMD that is not one of the well-formed templates may still have
				# been understood as some command: bring model and transceiver back in step before going on
				if not resync(ctx, r, bench, log, (i,)):
					return
		else:
			payload, kind = hostile_data(r)
			log.append("%s DATA <- %s (%d octets)" % (specs[i]["name"], kind, len(payload)))
			ctx.count("data:%s" % kind)
			ctx.seen(hash(("d", payload)))
			node.l1_data.sendto(payload, node.data_port)
			try:
				res = node.trx.recv_data_msg()
			except Exception as e:
				ctx.violation("data-escape", dict(w, datagram = payload[:60].hex(), kind = kind, traceback = tb(e)),
					what = "%s escapes recv_data_msg() on a %s datagram" % (type(e).__name__, kind))
				return
			if res is not None:
				# accepted: then it must have been a message the layout reads as valid for this transceiver
				try:
					ref = trxd.decode(payload, "tx")
					ok = ref["ver"] == bench.models[i].ver
				except ValueError:
					ok = False
				if not ok:
					ctx.violation("data-accept", dict(w, datagram = payload[:60].hex(), kind = kind),
						what = "a malformed data message was queued instead of being dropped")
					return
				ctx.count("hostile_data_that_is_actually_valid")
				# it sits in the queue for its own frame: let that frame come (odd burst lengths, header-only
				# messages ... are forwarded - or refused - inside the clock tick)
				try:
					bench.tick(ref["fn"] % trxd.HYPERFRAME)
				except Exception as e:
					ctx.violation("tick-escape", dict(history = log[-10:], datagram = payload[:60].hex(), kind = kind, traceback = tb(e)),
						what = "%s escapes the clock tick that forwards an accepted %s data message" % (type(e).__name__, kind))
					return
				ctx.count("accepted_hostile_data_ticked")
				# whatever was forwarded in that tick may have used up one unit of a pending drop budget
				for j, bd in enumerate(bench.budgets):
					if j != i and bd.hi > 0 and bd.matches(ref["fn"] % trxd.HYPERFRAME):
						bd.lo = max(0, bd.lo - 1)
		# the clock keeps ticking
		fn = (fn + 1) % trxd.HYPERFRAME
		try:
			bench.tick(fn)
			for k in range(3):
				bench.tick((fn + 1 + k) % trxd.HYPERFRAME)
		except Exception as e:
			ctx.violation("tick-escape", dict(history = log[-10:], traceback = tb(e)),
				what = "%s escapes the clock tick after hostile input" % type(e).__name__)
			return
		for nd in bench.nodes:
			nd.rx_data()
		# traffic goes on right after the hostile input, with whatever it left behind
		if r.random() < 0.7:
			s = r.randrange(2)
			fn = (fn + 5) % trxd.HYPERFRAME
			m = {"dir": "tx", "ver": bench.models[s].ver, "fn": fn, "tn": r.randrange(8), "pwr": 0, "bits": trxd.rand_bits(r, 148)}
			try:
				if bench.models[s].fh is not None and any(f < 0 for p in bench.models[s].fh[2] for f in p):
					continue
				acc, got = bench.transmit(s, m)
				ctx.count("bursts_right_after_hostile_input")
			except Exception as e:
				ctx.violation("tick-escape", dict(history = log[-10:], traceback = tb(e)),
					what = "%s escapes the clock tick that forwards the next burst after hostile input" % type(e).__name__)
				return
			if not poisoned:
				# model and transceiver are in step (the hostile input was ignored, refused, or a well-formed
				# command with a defined effect): the burst must come out exactly as the model says
				j = 1 - s
				if acc and j in bench.recipients(s, m["fn"]):
					e = radio.expected(bench.models[s], bench.models[j], bench.budgets[j], m, m["bits"])
					res = radio.check(e, got[j], bench.budgets[j])
					ctx.count("bursts_right_after_checked")
					if isinstance(res, str):
						ctx.violation("after-hostile", dict(history = log[-12:], expected = {k: v for k, v in e.items() if k != "soft"}),
							what = "the hostile input changed later behaviour: " + res)
						return
		# probe: re-establish a known configuration with valid commands, then a valid burst
		if r.random() < 0.5:
			if not probe(ctx, r, bench, specs, log):
				return
	ctx.count("sessions")
	if idx < 2:
		ctx.sample("session", log[:12])


def resync(ctx, r, bench, log, nodes = (0, 1)):
	""" Re-establish every modelled setting with valid absolute commands, so that the
	    reference model and the transceiver agree again whatever a hostile datagram did. """
	try:
		for i in nodes:
			for c in REESTABLISH + [r.choice(DROPS), "SETFORMAT %d" % r.choice((0, 1))]:
				st = bench.nodes[i].ctrl(c)
				mst, _ = trxc.apply(bench.models[i], c.split(" ")[0], c.split(" ")[1:], bench.models)
				if c.startswith("FAKE_DROP"):
					bench.budgets[i].set(bench.models[i].drop_amount, bench.models[i].drop_period)
				if st != mst:
					ctx.violation("probe", {"history": log[-10:], "command": c},
						what = "valid command %s answered %d (expected %d) after hostile input" % (c, st, mst))
					return False
			rx, tx = (890000, 935000) if i == 0 else (935000, 890000)
			# POWEROFF forgets hopping, tuning is repeated, POWERON brings it back
			bench.nodes[i].ctrl("POWEROFF")
			trxc.apply(bench.models[i], "POWEROFF", [], bench.models)
			for c in ("RXTUNE %d" % rx, "TXTUNE %d" % tx, "POWERON"):
				st = bench.nodes[i].ctrl(c)
				mst, _ = trxc.apply(bench.models[i], c.split(" ")[0], c.split(" ")[1:], bench.models)
				if st != mst:
					ctx.violation("probe", {"history": log[-10:], "command": c},
						what = "valid command %s answered %d (expected %d) after hostile input" % (c, st, mst))
					return False
	except common.HarnessError as e:
		ctx.violation("probe", {"history": log[-10:]}, what = "valid command not answered after hostile input: %s" % e)
		return False
	except Exception as e:
		ctx.violation("probe", {"history": log[-10:], "traceback": tb(e)}, what = "valid command raises %s after hostile input" % type(e).__name__)
		return False
	ctx.count("resyncs")
	return True


def probe(ctx, r, bench, specs, log):
	if not resync(ctx, r, bench, log):
		return False
	return probe_burst(ctx, r, bench, specs, log)


def probe_burst(ctx, r, bench, specs, log):
	s = r.randrange(2)
	bits = trxd.rand_bits(r, 148)
	m = {"dir": "tx", "ver": bench.models[s].ver, "fn": r.randrange(trxd.HYPERFRAME), "tn": r.randrange(8), "pwr": 0, "bits": bits}
	try:
		acc, got = bench.transmit(s, m)
	except Exception as e:
		ctx.violation("probe", {"history": log[-10:], "traceback": tb(e)}, what = "valid burst raises %s after hostile input" % type(e).__name__)
		return False
	ctx.count("probes")
	if not acc:
		ctx.violation("probe", {"history": log[-10:]}, what = "valid burst refused after hostile input")
		return False
	j = 1 - s
	e = radio.expected(bench.models[s], bench.models[j], bench.budgets[j], m, bits)
	res = radio.check(e, got[j], bench.budgets[j])
	if isinstance(res, str) or got[s]:
		ctx.violation("probe", {"history": log[-12:], "expected": {k: v for k, v in e.items() if k != "soft"}},
			what = "forwarding after hostile input: %s" % (res if isinstance(res, str) else "burst delivered back to its sender"))
		return False
	ctx.count("probes_passed")
	return True


# ---------------------------------------------------------------------------
# message parsers and capture files

def parsers(ctx, r):
	dm = msgs.data_msg
	for _ in range(ctx.scale(6000, 600000)):
		if r.random() < 0.5:
			d, kind = hostile_data(r)
		else:
			d = bytearray(trxd.encode(trxd.rand_rx(r)))
			for _ in range(r.randint(0, 5)):
				d[r.randrange(len(d))] = r.randrange(256)
			d = bytes(d[:r.choice((len(d), len(d), r.randrange(len(d) + 1)))])
			kind = "mutated rx"
		for cls, conv in ((dm.TxMsg, bytes), (dm.RxMsg, bytearray)):
			try:
				cls().parse_msg(conv(d))
				ctx.count("parser_accepts")
			except ValueError:
				ctx.count("parser_valueerror")
			except Exception as e:
				ctx.violation("parser", {"datagram": d[:40].hex(), "len": len(d), "class": cls.__name__, "kind": kind},
					what = "%s.parse_msg() raises %s (only ValueError is allowed)" % (cls.__name__, type(e).__name__))
				return
		ctx.seen(hash(("p", d)))


def captures(ctx, r):
	for i in range(ctx.scale(800, 60000)):
		k = r.randrange(5)
		if k == 0:
			content = r.randbytes(r.randint(0, 400))
			kind = "random bytes"
		else:
			ml = [trxd.rand_msg(r) for _ in range(r.randint(1, 5))]
			content = bytearray()
			for m in ml:
				body = trxd.encode(m)
				content += (b"\x01" if m["dir"] == "tx" else b"\x02") + len(body).to_bytes(2, "big") + body
			if k == 1:
				content[0] = r.choice((0, 3, 0xff))
				kind = "unknown tag"
			elif k == 2:
				content[1:3] = r.choice((b"\xff\xff", b"\x00\x00", b"\x00\x01", b"\x7f\xff"))
				kind = "length beyond EOF / zero"
			elif k == 3:
				for _ in range(r.randint(1, 8)):
					content[r.randrange(len(content))] ^= 1 << r.randrange(8)
				kind = "flipped octets"
			else:
				content = content[:r.randrange(len(content))] + r.randbytes(r.randint(0, 5))
				kind = "cut and garbage"
			content = bytes(content)
		ctx.count("capture:%s" % kind)
		ctx.seen(hash(("f", content)))
		try:
			f = data_dump.DATADumpFile(io.BytesIO(content))
			f.parse_all()
			f.parse_all(r.randrange(4), r.randint(1, 3))
			for idx in (0, 1, 2, r.randrange(8)):
				f.parse_msg(idx)
		except Exception as e:
			ctx.violation("capture", {"content": content[:80].hex(), "len": len(content), "kind": kind, "traceback": tb(e)},
				what = "%s escapes DATADumpFile.parse_*() on a capture with %s" % (type(e).__name__, kind))
			return


# ---------------------------------------------------------------------------
# the real select loop: an escaping exception kills the thread

def run_loop(ctx, r):
	for rd in range(ctx.scale(6, 200)):
		aw = sim.AppWorld(["-b", "127.0.0.1"], seed = r.getrandbits(30))
		vs = vnet.VSelect(aw.net)
		saved_select = vnet.attach_select(sim.fake_trx, vs)
		if not saved_select:
			raise common.HarnessError("cannot find fake_trx's use of select")
		box = {}

		def body():
			try:
				aw.app.run()
			except vnet.StopLoop:
				box["stopped"] = True
			except BaseException as e:
				box["error"] = e

		th = threading.Thread(target = body, daemon = True)
		th.start()
		try:
			node = aw.nodes[r.randrange(2)]
			sent = []
			for k in range(r.randint(20, 60)):
				if r.random() < 0.6:
					payload, kind, _ = hostile_ctrl(r)
					if kind == "very long":
						continue
					node.l1_ctrl.sendto(payload, node.ctrl_port)
				else:
					payload, kind = hostile_data(r)
					node.l1_data.sendto(payload, node.data_port)
				sent.append((kind, payload[:60]))
				ctx.count("loop_inputs")
				ctx.seen(hash(("l", payload)))
				# wait until the loop has consumed it: decided on the loop's own steps - select() reporting the socket
				# readable thousands of times while the datagram stays unread is a loop that does not serve it; the
				# wall clock is only a generous backstop
				end = time.time() + 120
				r0 = vs.ready_returns
				spinning = False
				while th.is_alive() and time.time() < end:
					if vs.idle.is_set() and not any(s.q for s in (node.trx.ctrl_if.sock, node.trx.data_if.sock)):
						break
					if vs.ready_returns - r0 > 5000 and any(s.q for s in (node.trx.ctrl_if.sock, node.trx.data_if.sock)):
						spinning = True
						break
					watched = getattr(vs, "last", None)
					if vs.idle.is_set() and watched is not None:
						unwatched = [s for s in (node.trx.ctrl_if.sock, node.trx.data_if.sock) if s.q and not any(s is x for x in watched)]
						if unwatched:
							spinning = "blind"
							break
					time.sleep(0.001)
				if spinning == "blind":
					ctx.violation("loop", {"last_inputs": [(k2, p.hex()) for k2, p in sent[-3:]]},
						what = "fake_trx's main loop waits in select() without the %s socket of a transceiver in its list: "
							"datagrams sent there are never served" % ("control" if node.trx.ctrl_if.sock.q else "data"))
					box["spinning"] = True
					break
				if spinning:
					ctx.violation("loop", {"last_inputs": [(k2, p.hex()) for k2, p in sent[-3:]]},
						what = "fake_trx's main loop was told 5000 times that a socket is readable and never read the datagram "
							"(%s socket): it spins without serving" % ("control" if node.trx.ctrl_if.sock.q else "data"))
					box["spinning"] = True
					break
				if not th.is_alive():
					break
			if box.get("spinning"):
				return
			if not th.is_alive() and "error" in box:
				e = box["error"]
				ctx.violation("loop", {"last_inputs": [(k, p.hex()) for k, p in sent[-3:]], "traceback": tb(e)},
					what = "%s escapes into fake_trx's main loop and ends it (last input: %s)" % (type(e).__name__, sent[-1][0]))
				continue
			# the loop must still serve a valid command
			node.l1_ctrl.take_all()
			node.l1_ctrl.sendto(b"CMD NOMTXPOWER\0", node.ctrl_port)
			ok = None
			end = time.time() + 120
			while th.is_alive() and time.time() < end:
				got = node.l1_ctrl.take_all()
				if got:
					ok = got[0][0].startswith(b"RSP NOMTXPOWER 0")
					break
				time.sleep(0.001)
			if ok is None and th.is_alive():
				ctx.inconclusive_because("main loop did not answer within 120 s of wall clock (loaded machine?)")
				continue
			ctx.count("loop_rounds")
			if not ok:
				ctx.violation("loop", {"last_inputs": [(k, p.hex()) for k, p in sent[-3:]]},
					what = "main loop no longer answers a valid command after hostile input")
		finally:
			vs.request_stop()
			th.join(5)
			import select as real_select
			vnet.detach(sim.fake_trx, {k: (real_select if isinstance(v, vnet.VSelect) else v) for k, v in saved_select.items()})
			aw.shutdown()


# ---------------------------------------------------------------------------
# trxcon side

def trxcon_hostile(r):
	k = r.randrange(10)
	verbs = ("POWERON", "POWEROFF", "ECHO", "MEASURE", "RXTUNE", "TXTUNE", "SETSLOT", "SETFH", "SETTA", "NOPE")
	v = r.choice(verbs)
	if k == 0:
		return r.randbytes(r.choice((r.randint(0, 1023), 1023, 1024, 1025, 2000, 4000)))
	if k == 1:
		return ("RSP %s" % v).encode()                 # no status, no space
	if k == 2:
		return ("RSP %s " % v).encode()
	if k == 3:
		return ("RSP %s abc" % v).encode()
	if k == 4:
		return ("RSP %s %d" % (v, r.choice((0, 1, -1, 2**31, -2**31)))).encode()
	if k == 5:
		return b"RSP MEASURE" + r.choice((b"", b" ", b" 0", b" 0 ", b" 0 935", b" 0 935000", b" 0 935000 ", b" 0 935000 x", b" 0 x y",
			b" 0 99999999999999 -70", b" 0 935000 -999999999999"))
	if k == 6:
		return b"RSP " + r.randbytes(r.randint(0, 40))
	if k == 7:
		return ("RSP %s 0 " % v).encode() + b"9" * r.choice((10, 500, 1000, 1019, 1030, 3000))
	if k == 8:
		return r.choice((b"", b"R", b"RSP", b"RSP ", b"RSP  ", b"RSP\0", b"IND CLOCK 1", b"CMD POWERON"))
	b = bytearray(("RSP %s 0 1 2" % v).encode())
	for _ in range(3):
		b[r.randrange(len(b))] ^= 1 << r.randrange(8)
	return bytes(b)


KINDS = ("RESET", "POWERON", "POWEROFF", "MEASURE 10", "H0 20", "SETSLOT 1 1", "SETTA 3", "H1 3 0 2 10 20")


def trxcon_systematic(ctx, binary):
	""" For every command trxcon can have pending: its well-formed response cut at every length (with and
	    without the terminating NUL), with every separator dropped or doubled - each against a fresh instance. """
	probe = "".join("N %d\nK %s\nc\n" % (i, k) for i, k in enumerate(KINDS)).encode()
	rc, out, err = cbuild.run(binary, probe, twin = False)
	cases = []
	if rc != 0:
		return cases	# the random cases report it
	cur = None
	for l in out.decode(errors = "replace").splitlines():
		if l.startswith("CASE "):
			cur = KINDS[int(l[5:])]
		elif l.startswith("C ") and cur:
			cmd = bytes.fromhex(l[2:]).rstrip(b"\0").decode(errors = "replace")
			if not cmd.startswith("CMD "):
				continue
			p = cmd[4:].split(" ")
			rsp = "RSP %s 0%s%s" % (p[0], "".join(" " + a for a in p[1:]), " -60" if p[0] == "MEASURE" else "")
			forms = set()
			for cut in range(len(rsp) + 1):
				forms.add(rsp[:cut].encode())
				forms.add(rsp[:cut].encode() + b"\0")
			for k, ch in enumerate(rsp):
				if ch == " ":
					forms.add((rsp[:k] + rsp[k + 1:]).encode() + b"\0")
					forms.add((rsp[:k] + "  " + rsp[k + 1:]).encode() + b"\0")
			# responses filling the receive buffer to the last octets, with and without any separator
			for n in (1000, 1016, 1017, 1018, 1019, 1020, 1021, 1022, 1023, 1024, 1025, 1030, 2000):
				for body in (b"RSP " + b"A" * (n - 4), ("RSP %s" % p[0]).encode() + b"A" * (n - 4 - len(p[0])),
						("RSP %s " % p[0]).encode() + b"7" * (n - 5 - len(p[0])), ("RSP %s " % p[0]).encode() + b"0" * (n - 5 - len(p[0])),
						("RSP %s 0 " % p[0]).encode() + b"0" * (n - 7 - len(p[0])), ("RSP %s 0" % p[0]).encode() + b" " * (n - 6 - len(p[0])),
						b"RSP" + b" " * (n - 3)):
					forms.add(body)
					forms.add(body[:-1] + b"\0")
			for f in sorted(forms):
				cases.append(["K " + cur, "R " + (f.hex() or "-"), "t", "s"])
				ctx.count("trxcon_systematic_responses")
			cur = None
	return cases


def trxcon_side(ctx, r):
	bd = cbuild.BuildDir("c14")
	try:
		binary = cbuild.build_trxif(bd)
		cases = []
		for i in range(ctx.scale(400, 40000)):
			ops = []
			pending = r.random() < 0.7
			if pending:
				ops.append("K " + r.choice(KINDS))
			for _ in range(r.randint(5, 40)):
				if r.random() < 0.6:
					ops.append("R " + (trxcon_hostile(r).hex() or "-"))
				else:
					n = r.choice((0, 1, 7, 8, 9, 155, 156, 157, 158, 159, 451, 452, 453, 454, 455, 511, 512, 513, 600, 1024, 2000, r.randint(0, 512)))
					d = bytearray(r.randbytes(n))
					if n and r.random() < 0.7:
						d[0] &= 0x0f
					if n >= 5 and r.random() < 0.7:
						d[1:5] = r.randrange(2715648 + 10).to_bytes(4, "big")
					ops.append("D " + (bytes(d).hex() or "-"))
				if r.random() < 0.1:
					ops.append("t")
			ops.append("s")
			cases.append(ops)
		cases += trxcon_systematic(ctx, binary)
		scripts = [("N %d\n" % i + "\n".join(ops) + "\n").encode() for i, ops in enumerate(cases)]
		# (no MemorySanitizer twin here: what trxcon reports upwards after a hostile datagram is not part of
		# the statement - only that it neither crashes nor touches memory out of bounds)
		outputs, crashes = cbuild.run_cases(binary, scripts, timeout = 300, twin = False)
		for (i, rc, err, rep) in crashes:
			last = (outputs[i] or [])[-2:]
			done = sum(1 for l in (outputs[i] or []) if l[:2] in ("r ", "d ", "k ", "t "))
			op = cases[i][done] if done < len(cases[i]) else "?"
			ctx.violation("trxcon", {"failing_op": op[:200], "ops_before": cases[i][max(0, done - 3):done], "stderr": err[-1800:]},
				what = "trx_if.c dies on a hostile datagram (rc=%s): %s" % (rc, rep or "signal / assertion"))
		for i, out in enumerate(outputs):
			if out is None:
				continue
			ctx.count("trxcon_cases")
			ctx.count("trxcon_datagrams", sum(1 for l in out if l[:2] in ("r ", "d ")))
			ctx.seen(common.h64(scripts[i]))
		if cases:
			ctx.sample("trxcon", cases[0][:6])
	finally:
		bd.remove()


def run(ctx):
	ctx.rule = ("valid two-transceiver sessions with hostile input injected at random points: control datagrams (random octets, non-UTF-8, "
		"only CMD, no NUL, non-numeric / huge / negative / missing / extra arguments for every verb, hostile thresholds, periods, "
		"versions and hopping parameters, bit flips, odd whitespace, 0..4000 octets), data datagrams (random, truncated at every length, "
		"bit flips, wrong/unknown version, lengths around 148 and 444), each followed by clock ticks and (half of the time) a probe of "
		"valid commands and a valid burst; message parsers and capture files on hostile content; the same inputs through the real "
		"Application.run() loop thread; hostile TRXC/TRXD datagrams into the real trx_if.c callbacks under ASan+UBSan; distinct = "
		"distinct input octet strings; all non-trivial")
	ctx.assume("reading uninitialised stack in trx_if.c is not 'out of bounds' and is not judged here")
	r = ctx.rng("c14")
	sim.ctrl_if_time_virtual()
	for i in range(ctx.scale(700, 60000)):
		with common.case_watchdog(ctx, "session", {"case": i}, first = 60, second = 60):
			session(ctx, ctx.case_rng("session", i), i)
		if ctx.too_many() or ctx.time_left() < 0:
			break
	ctx.current_case = None
	parsers(ctx, r)
	captures(ctx, r)
	run_loop(ctx, r)
	sim.restore_time()
	trxcon_side(ctx, r)
	ctx.require("trxcon_systematic_responses", 200)
	ctx.require("sessions", 50)
	ctx.require("probes_passed", 200)
	ctx.require("ctrl:non-UTF-8", 50)
	ctx.require("ctrl:non-numeric argument", 50)
	ctx.require("ctrl:hostile threshold/period/version", 50)
	ctx.require("data:truncated", 50)
	ctx.require("accepted_hostile_data_ticked", 100)
	ctx.require("parser_valueerror", 1000)
	ctx.require("capture:random bytes", 50)
	ctx.require("loop_rounds", 3)
	ctx.require("trxcon_datagrams", 2000)


def replay(ctx, data):
	if common.replay_case(ctx, data, {"session": session}):
		return
	ctx.rule = "replay: no case coordinates in the witness; rerunning the check with the recorded seed"
	ctx.seed = data.get("seed", 0)
	run(ctx)

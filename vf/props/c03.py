# C03 - Every queued burst is transmitted exactly once, in its own frame.
#
# Exactly-once / conservation monitor over unique burst ids.  Sequential
# histories (arrivals, ticks with gaps and across the hyperframe wrap,
# POWERON/POWEROFF, SETFORMAT) and a controlled two-thread baton scheduler
# (vf/sched.py) that races one socket-thread operation against one clock tick.

import re

from vf import common, radio, sim, sched
from vf.ref import trxd

SHARDS = {"quick": 1, "thorough": 16}
H = trxd.HYPERFRAME
STALE_RE = re.compile(r"Stale TRXD message \(fn=(\d+)\): (.*)")


def passed(fn, now):
	""" frame fn lies before frame now (modulo the hyperframe) """
	d = (now - fn) % H
	return 0 < d <= H // 2


def ident(k):
	""" unique id k -> (tn, pwr): visible in datagrams and in the stale log line """
	return k % 8, (k // 8) % 60


class Rig:
	""" One or two senders and one listening peer on vnet; or the real fake_trx.Application with
	    four transceivers, ticked through its own clck_handler. """

	def __init__(self, seed, two_senders = False, lock_sched = None, app = False):
		self.aw = None
		self.peer = 1
		self.bystanders = []
		if app:
			# list order: BTS (listening peer), MS (bystander, tuned elsewhere), a child of the BTS and an
			# additional transceiver (the senders): whatever the bystander does must not matter
			# ... and a child of that additional transceiver (a third sender): its parent's POWEROFF empties both queues,
			# its parent's POWERON must leave alone what a child that was already running has queued
			self.aw = sim.AppWorld(["-b", "127.0.0.1", "--trx", "127.0.0.1:5700/1", "--trx", "127.0.0.1:7700",
				"--trx", "127.0.0.1:7700/1"], seed = seed)
			self.bench = radio.Bench.from_app(self.aw)
			b = self.bench
			plan = [(935000, 890000), (947000, 902000), (890000, 935000), (890000, 935000), (890000, 935000)]
			for i, (rx, tx) in enumerate(plan):
				b.cmd(i, "RXTUNE %d" % rx)
				b.cmd(i, "TXTUNE %d" % tx)
			for i in (0, 1, 3):
				b.cmd(i, "POWERON")       # the child is powered with its parent
			self.peer = 0
			self.senders = [2, 3, 4]
			self.bystanders = [1]
			self.log = self.aw.log
			self.log.take()
			self.next_id = 0
			self.bursts = {}
			return
		specs = [{"base_port": 5700, "name": "S"}, {"base_port": 6700, "name": "P"}]
		if two_senders:
			specs.append({"base_port": 7700, "name": "S2"})
		self.bench = radio.Bench(seed, specs)
		b = self.bench
		for i, (rx, tx) in enumerate([(890000, 935000), (935000, 890000), (890000, 935000)][:len(specs)]):
			b.cmd(i, "RXTUNE %d" % rx)
			b.cmd(i, "TXTUNE %d" % tx)
			b.cmd(i, "POWERON")
		self.senders = [0] + ([2] if two_senders else [])
		self.log = b.world.log
		self.log.take()
		self.next_id = 0
		self.bursts = {}     # id -> dict(fn, sender, state)

	def new_burst(self, s, fn, ver = None):
		k = self.next_id
		self.next_id += 1
		tn, pwr = ident(k)
		m = {"dir": "tx", "ver": self.bench.models[s].ver if ver is None else ver, "fn": fn % H, "tn": tn, "pwr": pwr,
		     "bits": bytes((k >> i) & 1 for i in range(32)) + bytes(116)}
		return k, m

	def feed(self, s, m):
		return self.bench.nodes[s].data_raw(trxd.encode(m)) is not None

	def emitted(self):
		""" ids (from the burst bits) delivered to the peer since the last call """
		out = []
		for d in self.bench.nodes[self.peer].rx_data():
			try:
				dd = trxd.decode(d, "rx")
			except ValueError:
				out.append(("undecodable", None))
				continue
			if dd.get("nope") or dd.get("soft") is None:
				continue
			k = sum((1 if dd["soft"][i] < 0 else 0) << i for i in range(32))
			out.append((k, dd["fn"]))
		return out

	def stale_reports(self):
		out = []
		other = []
		for lvl, msg in self.log.take():
			m = STALE_RE.search(msg)
			if m:
				desc = m.group(2)
				f = re.search(r"fn=(\d+)", desc)
				t = re.search(r"tn=(\d+)", desc)
				p = re.search(r"pwr=(\d+)", desc)
				out.append((int(f.group(1)) if f else None, int(t.group(1)) if t else None, int(p.group(1)) if p else None))
			elif "tale" in msg:
				out.append((None, None, None))
			else:
				other.append(msg)
		if not out and other:
			# the report may be worded differently: any warning raised during the tick counts as one
			out = [(None, None, None)] * len(other)
		return out


class Model:
	""" queued: id -> (sender, fn); outcomes are checked at every tick """

	def __init__(self):
		self.q = {}

	def accept(self, k, s, fn):
		self.q[k] = (s, fn % H)

	def clear(self, s):
		gone = [k for k, (ss, _) in self.q.items() if ss == s]
		for k in gone:
			del self.q[k]
		return gone

	def tick(self, now, running):
		""" -> (ids that must be emitted now, ids that must be reported stale) """
		emit, stale = [], []
		for k, (s, fn) in list(self.q.items()):
			if not running[s]:
				continue
			if fn == now:
				emit.append(k)
				del self.q[k]
			elif passed(fn, now):
				stale.append(k)
				del self.q[k]
		return emit, stale


def mechanism_of(what, w):
	return None


def check_tick(ctx, rig, model, now, hist, sub, extra_allowed = None):
	""" Drive one tick sequentially and compare emissions and stale reports. """
	b = rig.bench
	running = {s: b.models[s].running for s in rig.senders}
	emit, stale = model.tick(now, running)
	rig.emitted()
	rig.log.take()
	b.tick(now)
	got = rig.emitted()
	reports = rig.stale_reports()
	ctx.count("ticks")
	ctx.count("emissions_expected", len(emit))
	ctx.count("stale_expected", len(stale))
	got_ids = sorted(k for k, _ in got)
	if any(fn != now for _, fn in got):
		return "a burst for frame %r was put on the air during the tick of frame %d" % ([fn for _, fn in got if fn != now][:3], now)
	if got_ids != sorted(emit):
		dup = [k for k in set(got_ids) if got_ids.count(k) > 1]
		missing = [k for k in emit if k not in got_ids]
		extra = [k for k in got_ids if k not in emit]
		return ("tick %d: %s" % (now, "; ".join(x for x in (
			("burst(s) %r emitted twice" % dup) if dup else "",
			("burst(s) %r queued for this frame not emitted" % missing[:4]) if missing else "",
			("burst(s) %r emitted although not due (frames %r)" % (extra[:4], [rig.bursts[k]["fn"] for k in extra[:4] if k in rig.bursts])) if extra else "") if x)))
	want_rep = sorted((rig.bursts[k]["fn"],) + ident(k) for k in stale)
	if all(r[0] is not None for r in reports):
		if sorted(reports) != want_rep:
			return "tick %d: stale reports %r, expected %r (fn, tn, pwr)" % (now, sorted(reports)[:4], want_rep[:4])
	elif len(reports) != len(stale):
		return "tick %d: %d stale reports, expected %d" % (now, len(reports), len(stale))
	return None


def sequential(ctx, r, idx):
	two = r.random() < 0.3
	use_app = r.random() < 0.25
	rig = Rig(r.getrandbits(30), two, app = use_app)
	try:
		_sequential(ctx, r, idx, rig)
	finally:
		if rig.aw is not None:
			rig.aw.shutdown()


def _sequential(ctx, r, idx, rig):
	b = rig.bench
	model = Model()
	hist = []
	near_wrap = r.random() < 0.35
	clock = (H - r.randint(2, 40)) if near_wrap else r.randrange(H)
	w = {"history": hist, "start_clock": clock}

	def fail(what, sub = "sequential"):
		ctx.violation(sub, dict(w, history = hist[-25:]), what = what,
			mechanism = mechanism_of(what, w))

	for step in range(r.randint(30, 60)):
		x = r.random()
		if step == 5 and r.random() < 0.05:
			# a long backlog: several hundred bursts queued ahead at once
			s = r.choice(rig.senders)
			if b.models[s].running:
				for q in range(r.choice((255, 256, 257, 400))):
					k, m = rig.new_burst(s, clock + 1 + q % 7)
					rig.bursts[k] = {"fn": m["fn"], "sender": s}
					if not rig.feed(s, m):
						fail("burst of a long backlog dropped by a running transceiver")
						return
					model.accept(k, s, m["fn"])
				hist.append("backlog of bursts for clock+1..+7 queued")
				ctx.count("backlogs")
		if x < 0.5:
			s = r.choice(rig.senders)
			d = r.choice((-3, -2, -1, 0, 0, 1, 1, 2, 3, 4, 5, 26, H - 1, H - 30)) if r.random() < 0.9 else r.randint(-50, 200)
			if r.random() < 0.04:
				# far from the clock, but clearly on one side of it: up to a third of the hyperframe ahead (must simply
				# wait) or behind (stale); the half-hyperframe border itself is left alone
				d = r.choice((H // 3 + 7, H // 2 - 1000, H // 4, H - H // 3 - 7, H // 2 + 1000))
				ctx.count("far_arrivals")
			ver = b.models[s].ver if r.random() < 0.9 else 1 - b.models[s].ver
			k, m = rig.new_burst(s, clock + d, ver)
			rig.bursts[k] = {"fn": m["fn"], "sender": s}
			acc = rig.feed(s, m)
			want = b.models[s].running and ver == b.models[s].ver
			hist.append("arrival id=%d fn=clock%+d=%d ver=%d -> %s" % (k, d if d < H // 2 else d - H, m["fn"], ver, "accepted" if acc else "dropped"))
			ctx.count("arrivals")
			if acc != want:
				fail("burst %s although the transceiver is %s and expects header version %d (burst has %d)"
					% ("accepted" if acc else "dropped", "running" if b.models[s].running else "idle", b.models[s].ver, ver))
				return
			if acc:
				model.accept(k, s, m["fn"])
				ctx.count("accepted")
		elif x < 0.85:
			gap = 1 if r.random() < 0.8 else r.randint(2, 6)
			clock = (clock + gap) % H
			if clock < gap:
				ctx.count("hyperframe_wraps_crossed")
			hist.append("tick fn=%d%s" % (clock, " (gap %d)" % gap if gap > 1 else ""))
			err = check_tick(ctx, rig, model, clock, hist, "sequential")
			if err:
				fail(err)
				return
		elif x < 0.91:
			s = r.choice(rig.senders)
			b.cmd(s, "POWEROFF")
			gone = model.clear(s)
			ms = b.models[s]
			if ms.child_mgt and ms.child_idx == 0:
				for j, mj in enumerate(b.models):
					if any(mj is c for c in ms.children):
						gone = gone + model.clear(j)
						ctx.count("child_queues_cleared_with_the_parent")
			ctx.count("cleared_by_poweroff", len(gone))
			hist.append("POWEROFF %s (clears %r)" % (b.models[s].name, gone))
		elif x < 0.97:
			s = r.choice(rig.senders)
			st, mst = b.cmd(s, "POWERON")
			hist.append("POWERON %s -> %d" % (b.models[s].name, st))
		elif x < 0.985 and rig.bystanders:
			j = r.choice(rig.bystanders)
			c = r.choice(("POWEROFF", "POWERON"))
			b.cmd(j, c)
			hist.append("%s %s (bystander)" % (c, b.models[j].name))
		else:
			s = r.choice(rig.senders)
			v = r.choice((0, 1, 0, 1, 2, 3, 15))     # also versions that are only answered with a suggestion
			b.cmd(s, "SETFORMAT %d" % v)
			hist.append("SETFORMAT %s %d" % (b.models[s].name, v))
		ctx.seen(hash((ctx.shard[0], idx, step)))
	# drain: whatever is still queued must come out in its own frame
	for s in rig.senders:
		if not b.models[s].running:
			gone = model.clear(s)     # nothing can be queued in an idle transceiver
	for _ in range(8):
		clock = (clock + 1) % H
		hist.append("tick fn=%d (drain)" % clock)
		err = check_tick(ctx, rig, model, clock, hist, "sequential")
		if err:
			fail(err)
			return
	for k, (s, fn) in sorted(model.q.items(), key = lambda kv: (kv[1][1] - clock) % H):
		if (fn - clock) % H > 300:
			continue
		while clock != fn:
			clock = (clock + 1) % H
			err = check_tick(ctx, rig, model, clock, hist, "sequential")
			if err:
				hist.append("tick fn=%d (drain)" % clock)
				fail(err)
				return
	ctx.count("histories")
	if rig.aw is not None:
		ctx.count("histories_through_application")
	if idx < 2:
		ctx.sample("history", hist[:14])


# ---------------------------------------------------------------------------
# concurrent: one socket-thread operation racing one tick

def make_sched(ctx, gran):
	sc = sched.Sched(gran)
	T = sim.transceiver.Transceiver
	for name in ("recv_data_msg", "tx_queue_append", "tx_queue_clear", "clck_tick", "power_event_handler"):
		sc.watch(T, name)
	sc.watch(sim.burst_fwd.BurstForwarder, "forward_msg")
	sc.watch(sim.fake_trx.FakeTRX, "handle_data_msg")
	sc.watch(sim.transceiver.CTRLInterfaceTRX, "parse_cmd")
	for m in sc.missing:
		ctx.count("watch_point_missing:%s" % m)
	return sc


RUN_TIMEOUT = [30.0]     # wall-clock watchdog per controlled run (a real deadlock hangs every time)


SCENARIOS = ("arrival-own-frame", "arrival-next-frame", "arrival-stale", "poweroff", "poweron")


def real_runner(op, tick):
	""" Both operations in real threads released together: the interpreter's own preemption
	    (switch interval 1 us) decides the interleaving. """
	import threading
	bar = threading.Barrier(2)
	errs = [None, None]

	def body(i, f):
		try:
			bar.wait(10)
			f()
		except BaseException as e:
			errs[i] = e
	ta = threading.Thread(target = body, args = (0, op), daemon = True)
	tb = threading.Thread(target = body, args = (1, tick), daemon = True)
	ta.start(); tb.start()
	ta.join(120); tb.join(120)
	return {"trace": [], "points": 0, "per_thread": [0, 0], "errors": errs, "hung": ta.is_alive() or tb.is_alive()}


def concurrent_case(ctx, sc, scenario, start, switches, seed, runner = None):
	""" Returns (error or None, run info) """
	rig = Rig(seed)
	b = rig.bench
	trx = b.nodes[0].trx
	if runner is None:
		# the transceiver's queue lock, whatever it is called: the one lock object it owns
		import _thread
		names = [k for k, v in vars(trx).items() if isinstance(v, (_thread.LockType, _thread.RLock, sched.BatonLock))]
		if not names:
			raise common.HarnessError("the transceiver owns no lock object at all: cannot put the baton-aware lock in place")
		# every lock the transceiver owns (the queue lock; since c1f9424 also the loss-simulation lock)
		for nd in b.nodes:
			for nm, v in list(vars(nd.trx).items()):
				if isinstance(v, (_thread.LockType, _thread.RLock)):
					setattr(nd.trx, nm, sched.BatonLock(sc))
	model = Model()
	T = 1000
	# pre-queued bursts: one stale, one for T, one for T+1, one for T+2
	pre = {}
	for d in (-1, 0, 1, 2):
		k, m = rig.new_burst(0, T + d)
		rig.bursts[k] = {"fn": m["fn"], "sender": 0}
		if not rig.feed(0, m):
			return "pre-queued burst refused", None
		model.accept(k, 0, m["fn"])
		pre[d] = k
	racing = None
	if scenario.startswith("arrival"):
		d = {"arrival-own-frame": 0, "arrival-next-frame": 1, "arrival-stale": -2}[scenario]
		racing, rm = rig.new_burst(0, T + d)
		rig.bursts[racing] = {"fn": rm["fn"], "sender": 0}
		b.nodes[0].l1_data.sendto(trxd.encode(rm), b.nodes[0].data_port)
		op = lambda: trx.recv_data_msg()
	elif scenario == "poweroff":
		b.nodes[0].l1_ctrl.sendto(b"CMD POWEROFF\0", b.nodes[0].ctrl_port)
		op = lambda: trx.ctrl_if.handle_rx()
	else:
		# POWERON racing a tick: power off first (sequentially), queue is then empty
		b.cmd(0, "POWEROFF")
		model.clear(0)
		pre = {}
		b.nodes[0].l1_ctrl.sendto(b"CMD POWERON\0", b.nodes[0].ctrl_port)
		op = lambda: trx.ctrl_if.handle_rx()
	rig.emitted()
	rig.log.take()
	if runner is not None:
		info = runner(op, lambda: b.tick(T))
	else:
		info = sc.run(op, lambda: b.tick(T), start, switches, timeout = RUN_TIMEOUT[0])
	if info["hung"]:
		return "deadlock: the two threads block each other", info
	for i, e in enumerate(info["errors"]):
		if e is not None:
			return "%s thread raised %s: %s" % (("socket", "clock")[i], type(e).__name__, e), info
	# what happened during the racing tick
	got_T = rig.emitted()
	rep_T = rig.stale_reports()
	b.nodes[0].l1_ctrl.take_all()
	# settle sequentially: ticks T+1 .. T+3
	if scenario == "poweroff":
		b.models[0].running = False
		b.models[0].fh = None
		st = b.nodes[0].ctrl("POWERON")
		if st != 0:
			return "POWERON after the racing POWEROFF answered %d" % st, info
		b.models[0].running = True
	elif scenario == "poweron":
		b.models[0].running = True
	later = {}
	reps = {}
	for t in (T + 1, T + 2, T + 3):
		b.tick(t)
		later[t] = rig.emitted()
		reps[t] = rig.stale_reports()
	all_emitted = [(k, T) for k, _ in got_T] + [(k, t) for t in later for k, _ in later[t]]
	all_stale = [x for x in rep_T] + [x for t in reps for x in reps[t]]
	ids = [k for k, _ in all_emitted]
	if len(ids) != len(set(ids)):
		return "a burst was emitted twice: %r" % sorted(k for k in set(ids) if ids.count(k) > 1), info
	for k, t in all_emitted:
		if k not in rig.bursts:
			return "unknown burst emitted", info
		if rig.bursts[k]["fn"] != t:
			return "burst for frame %d emitted during the tick of frame %d" % (rig.bursts[k]["fn"], t), info
	emitted = dict(all_emitted)
	stale_keys = sorted(all_stale)

	identified = all(x[0] is not None for x in all_stale)

	def is_stale(k):
		key = (rig.bursts[k]["fn"],) + ident(k)
		return key in all_stale

	def outcome(k):
		o = []
		if k in emitted:
			o.append("emitted")
		if is_stale(k):
			o.append("stale")
		return "+".join(o) or "nothing"

	# allowed outcome sets per burst
	if scenario.startswith("arrival"):
		want = {pre[-1]: {"stale"}, pre[0]: {"emitted"}, pre[1]: {"emitted"}, pre[2]: {"emitted"}}
		want[racing] = {"arrival-own-frame": {"emitted", "stale"}, "arrival-next-frame": {"emitted"}, "arrival-stale": {"stale"}}[scenario]
	elif scenario == "poweroff":
		# a tick concurrent with POWEROFF may still send / report what it already took out of the queue;
		# everything else is discarded for good
		want = {pre[-1]: {"stale", "nothing"}, pre[0]: {"emitted", "nothing"}, pre[1]: {"nothing"}, pre[2]: {"nothing"}}
	else:
		want = {}
	if not identified:
		# stale reports that do not name their burst (reworded log line): decide on counts
		not_emitted = [k for k in want if k not in emitted]
		must_report = [k for k in not_emitted if "nothing" not in want[k]]
		for k, allowed in want.items():
			if k in emitted and "emitted" not in allowed:
				return "burst for frame T%+d was emitted (allowed: %s)" % (rig.bursts[k]["fn"] - T, "/".join(sorted(allowed))), info
		if not len(must_report) <= len(all_stale) <= len(not_emitted):
			return "%d stale reports for %d bursts that were not emitted (%d of them must be reported)" % (
				len(all_stale), len(not_emitted), len(must_report)), info
		return None, info
	for k, allowed in want.items():
		o = outcome(k)
		ctx.count("outcome:%s:%s" % (scenario, o))
		if o not in allowed:
			role = "racing burst" if k == racing else "burst queued for frame T%+d" % (rig.bursts[k]["fn"] - T)
			return "%s ended as '%s' (allowed: %s)" % (role, o, "/".join(sorted(allowed))), info
	if len(all_stale) > sum(1 for k in want if is_stale(k)):
		return "more stale reports than stale bursts: %r" % stale_keys, info
	return None, info


def concurrent(ctx, r, gran):
	sc = make_sched(ctx, gran)
	sc.install()
	distinct = set()
	try:
		for scenario in SCENARIOS:
			# a run without preemption tells how many decision points exist
			err, info = concurrent_case(ctx, sc, scenario, 0, [], 1)
			if err:
				ctx.violation("concurrent", {"scenario": scenario, "start": 0, "switches": []}, what = err)
				continue
			n = info["points"]
			ctx.count("decision_points:%s:%s" % (gran, scenario), n)
			if n < 5:
				ctx.inconclusive_because("scheduler saw only %d decision points in scenario %s" % (n, scenario))
				continue
			plans = []
			if gran in ("line", "switch"):
				# all schedules with <= 2 preemptions
				for start in (0, 1):
					plans.append((start, []))
					for p1 in range(1, n + 2):
						plans.append((start, [p1]))
						for p2 in range(p1 + 1, n + 2):
							plans.append((start, [p1, p2]))
				if ctx.tier == "quick":
					pairs = [p for p in plans if len(p[1]) == 2]
					plans = [p for p in plans if len(p[1]) < 2] + r.sample(pairs, min(len(pairs), 250))
				extra = ctx.scale(150, 6000)
			else:
				for start in (0, 1):
					for p1 in range(1, n + 2):
						plans.append((start, [p1]))
				extra = ctx.scale(200, 8000)
			for _ in range(extra):
				k = r.choice((2, 3, 3, 4, 6))
				plans.append((r.randrange(2), sorted(r.sample(range(1, n + 4), min(k, n + 2)))))
			for (start, sw) in plans:
				err, info = concurrent_case(ctx, sc, scenario, start, sw, 1)
				if err and err.startswith("deadlock"):
					# a loaded machine must not look like a deadlock: repeat once with a long watchdog
					RUN_TIMEOUT[0] = 300.0
					err, info = concurrent_case(ctx, sc, scenario, start, sw, 1)
					RUN_TIMEOUT[0] = 30.0
				ctx.count("schedules_run")
				key = (scenario, start, tuple(info["trace"]) if info else None)
				distinct.add(key)
				ctx.seen(hash(key))
				if info and any(p < 0 for _, p in info["trace"]):
					ctx.count("schedules_with_lock_contention")
				if err:
					ctx.violation("concurrent", {"scenario": scenario, "start_thread": ("socket", "clock")[start], "switches": sw,
						"granularity": gran, "executed_switches": info["trace"] if info else None}, what = "%s: %s" % (scenario, err))
					break
				if ctx.time_left() < 0:
					break
	finally:
		sc.uninstall()
	ctx.count("distinct_schedules:%s" % gran, len(distinct))
	ctx.count("distinct_schedules", len(distinct))
	ctx.count("lock_contentions", sc.contended)


def real_threads(ctx, r):
	""" The same scenarios with real threads, the real lock and the interpreter's own scheduling. """
	import sys
	old = sys.getswitchinterval()
	sys.setswitchinterval(1e-6)
	try:
		for scenario in SCENARIOS:
			for k in range(ctx.scale(150, 1500)):
				err, info = concurrent_case(ctx, None, scenario, 0, [], 1, runner = real_runner)
				ctx.count("real_thread_races")
				ctx.seen(hash(("real", ctx.shard[0], scenario, k)))
				if err:
					ctx.violation("real-threads", {"scenario": scenario, "iteration": k}, what = "%s (real threads): %s" % (scenario, err))
					break
	finally:
		sys.setswitchinterval(old)


def run(ctx):
	ctx.rule = ("sequential: histories of 30-60 events (arrivals with FN = clock-3..+5, +26, +HYPERFRAME-1, ...; ticks with gaps and across "
		"2715647 -> 0; POWEROFF/POWERON; SETFORMAT; one or two senders sharing the tick) ending with a drain; concurrent: one socket-thread "
		"operation (arrival for the racing frame / the next frame / a past frame, POWEROFF, POWERON) against one clock tick under a baton "
		"scheduler at line granularity - all schedules with <= 2 preemptions (quick: all with <= 1 and a sample of pairs) plus random "
		"ones (thorough: also bytecode-instruction granularity); the same scenarios with real threads, the real lock and a 1 us "
		"interpreter switch interval; distinct = distinct (history, step) and distinct executed switch traces; "
		"all non-trivial")
	ctx.assume("'already passed' is judged modulo the hyperframe (within half a hyperframe)")
	ctx.assume("a tick racing a POWEROFF may still send / report what it had already taken out of the queue")
	r = ctx.rng("c03")
	for i in range(ctx.scale(700, 60000)):
		with common.case_watchdog(ctx, "sequential", {"case": i}, first = 60, second = 60):
			sequential(ctx, ctx.case_rng("history", i), i)
		if ctx.too_many() or ctx.time_left() < 0:
			break
	ctx.current_case = None
	import os
	for gran in os.environ.get("VERIF_GRAN", "line,switch").split(","):
		concurrent(ctx, r, gran)
	if "VERIF_GRAN" not in os.environ:
		real_threads(ctx, r)
	if ctx.tier == "thorough" and ctx.shard[0] % 4 == 0:
		concurrent(ctx, r, "instruction")
	ctx.require("histories", 100)
	ctx.require("accepted", 2000)
	ctx.require("emissions_expected", 500)
	ctx.require("stale_expected", 500)
	ctx.require("cleared_by_poweroff", 50)
	ctx.require("hyperframe_wraps_crossed", 20)
	ctx.require("schedules_run", 500)
	ctx.require("distinct_schedules", 200)
	ctx.require("schedules_with_lock_contention", 5)
	ctx.require("real_thread_races", 200)
	ctx.require("histories_through_application", 30)


def replay(ctx, data):
	w = data["witness"]
	if data["sub"] == "concurrent" and "switches" in w:
		ctx.rule = "replay of one recorded schedule"
		sc = make_sched(ctx, w.get("granularity", "line"))
		sc.install()
		try:
			start = 0 if w.get("start_thread", "socket") == "socket" else 1
			err, info = concurrent_case(ctx, sc, w["scenario"], start, w["switches"], 1)
		finally:
			sc.uninstall()
		ctx.seen(1); ctx.seen(2)
		print("replayed schedule: %s" % (err or "no violation"))
		if err:
			ctx.violation("concurrent", w, what = "%s: %s" % (w["scenario"], err))
		return
	if common.replay_case(ctx, data, {"history": sequential}):
		return
	ctx.rule = "replay: no case coordinates in the witness; rerunning the check with the recorded seed"
	ctx.seed = data.get("seed", 0)
	run(ctx)

# C01 - TRXD messages survive encode/decode unchanged.
#
# Monitor shape: round-trip postcondition evaluated by the harness on every
# encode of the real data_msg code: parse_msg(gen_msg(m, legacy)) must equal m
# in every field the protocol defines, and legacy padding must not matter.

from vf import common, msgs
from vf.ref import trxd

SHARDS = {"quick": 1, "thorough": 16}


def roundtrip(ctx, m, legacy, sub, as_bytes = False):
	""" One evaluation.  Returns False when a violation was recorded. """
	dm = msgs.data_msg
	obj = msgs.to_real(m)
	try:
		obj.validate()
	except ValueError:
		# outside C01's domain ("every message the toolkit accepts as valid");
		# C13 decides whether refusing it is right
		ctx.count("refused_by_toolkit")
		return True
	witness = {"msg": m, "legacy": legacy, "as_bytes": as_bytes}
	try:
		data = obj.gen_msg(legacy)
		data = bytes(data) if as_bytes else bytearray(data)
		new = dm.TxMsg() if m["dir"] == "tx" else dm.RxMsg()
		new.parse_msg(data)
	except Exception as e:
		ctx.violation(sub, witness, what = "valid message fails to round-trip: %s: %s"
			% (type(e).__name__, e))
		return False
	got = msgs.from_real(new)
	d = msgs.diff(m, got)
	ctx.count("roundtrips")
	ctx.count("class:%s/v%d/%s%s%s" % (m["dir"], m["ver"],
		"nope" if m.get("nope") else (m.get("mod") or str(len(m.get("bits") or m.get("soft") or b""))),
		"/legacy" if legacy else "", ""))
	ctx.seen(trxd.key(m, legacy))
	if d:
		witness["decoded"] = trxd.brief(got)
		ctx.violation(sub, witness, what = "fields differ after decode(encode(m)): %s" % ",".join(d))
		return False
	if m["ver"] == 0:
		# legacy padding must not change what is decoded
		try:
			other = dm.TxMsg() if m["dir"] == "tx" else dm.RxMsg()
			other.parse_msg(bytearray(obj.gen_msg(not legacy)))
		except Exception as e:
			ctx.violation(sub, witness, what = "legacy=%s variant fails: %s" % (not legacy, e))
			return False
		d2 = msgs.diff(got, msgs.from_real(other))
		ctx.count("legacy_equivalence_checks")
		if d2:
			ctx.violation(sub, witness, what = "legacy padding changes decoded fields: %s" % ",".join(d2))
			return False
	return True


def enumerated(ctx):
	""" One-dimensional sub-spaces, enumerated completely. """
	r = ctx.rng("enum")
	i = 0
	# all legal (modulation, TSC set, TSC) x {burst, NOPE}
	for (mod, s, t) in trxd.all_mts_triples():
		for nope in (False, True):
			i += 1
			if not ctx.mine(i):
				continue
			m = trxd.rand_rx(r, ver = 1, nope = nope, mod = mod)
			if not nope:
				m["tsc_set"], m["tsc"] = s, t
			roundtrip(ctx, m, False, "enum-mts")
			ctx.count("enum:mts")
	# all attenuation octets
	for pwr in range(256):
		i += 1
		if ctx.mine(i):
			m = trxd.rand_tx(r)
			m["pwr"] = pwr
			roundtrip(ctx, m, r.random() < .5, "enum-pwr")
			ctx.count("enum:pwr")
	# all RSSI values
	for rssi in range(-120, -46):
		i += 1
		if ctx.mine(i):
			m = trxd.rand_rx(r)
			m["rssi"] = rssi
			roundtrip(ctx, m, r.random() < .5, "enum-rssi")
			ctx.count("enum:rssi")
	# every soft-bit value at first, last and a random position
	for v in range(-127, 128):
		i += 1
		if ctx.mine(i):
			m = trxd.rand_rx(r)
			if m.get("soft") is None:
				m = trxd.rand_rx(r, ver = 0)
			n = len(m["soft"])
			m["soft"] = list(m["soft"])
			for pos in (0, n - 1, r.randrange(n)):
				m["soft"][pos] = v
			roundtrip(ctx, m, r.random() < .5, "enum-soft")
			ctx.count("enum:soft")
	# one-hot hard-bit bursts at every position
	for n in (148, 444):
		for pos in range(n):
			i += 1
			if ctx.mine(i):
				m = trxd.rand_tx(r, n = n)
				b = bytearray(n)
				b[pos] = 1
				m["bits"] = bytes(b)
				roundtrip(ctx, m, False, "enum-onehot", as_bytes = True)
				ctx.count("enum:onehot")
	# TN x version x direction, ToA / C-I bounds, FN edges
	for tn in range(8):
		for fn in trxd.FN_EDGE:
			i += 1
			if ctx.mine(i):
				m = trxd.rand_msg(r)
				m["tn"], m["fn"] = tn, fn
				roundtrip(ctx, m, r.random() < .5, "enum-hdr")
				ctx.count("enum:hdr")
	for toa in (-32768, -32767, -257, -256, -255, -1, 0, 1, 255, 256, 257, 32766, 32767):
		for ci in (-1280, -1279, -256, -1, 0, 1, 255, 256, 1279, 1280):
			i += 1
			if ctx.mine(i):
				m = trxd.rand_rx(r, ver = 1)
				m["toa256"], m["ci"] = toa, ci
				roundtrip(ctx, m, False, "enum-toa-ci")
				ctx.count("enum:toa-ci")


def run(ctx):
	ctx.rule = ("reference-valid TRXD messages (vf/ref/trxd.valid) generated with boundary bias "
		"plus completely enumerated 1-D sub-spaces (all MTS triples x NOPE, all attenuation octets, "
		"all RSSI, every soft-bit value, one-hot bursts, header edges); each is encoded by the real "
		"gen_msg and decoded by the real parse_msg; distinct = distinct (message, legacy flag) by "
		"hash of all fields and burst content; every generated message is non-trivial")
	ctx.assume("message equality is judged on the fields the protocol defines (NOPE indications have no modulation/TSC)")
	enumerated(ctx)
	r = ctx.rng("random")
	n = ctx.scale(30000, 3000000)
	for k in range(n):
		m = trxd.rand_msg(r)
		legacy = r.random() < 0.5
		ok = roundtrip(ctx, m, legacy, "random", as_bytes = (k & 1) == 0)
		if k < 3 * ctx.sample_cap:
			ctx.sample("roundtrip:%s/v%d" % (m["dir"], m["ver"]), {"msg": trxd.brief(m), "legacy": legacy})
		if not ok and ctx.too_many():
			break
	online(ctx)
	ctx.require("roundtrips", 1000)
	ctx.require("legacy_equivalence_checks", 100)
	ctx.require("enum:mts", 1)


def online(ctx):
	""" Messages the simulator really encodes are re-parsed as they leave. """
	try:
		from vf import sim
	except ImportError:
		return
	if not hasattr(sim, "online_roundtrip_workload"):
		return
	sim.online_roundtrip_workload(ctx, roundtrip)


def replay(ctx, data):
	w = common.unjson(data["witness"])
	m = w["msg"]
	if m.get("bits") is not None:
		m["bits"] = bytes(m["bits"]) if not isinstance(m["bits"], bytes) else m["bits"]
	ctx.rule = "replay of one recorded case"
	roundtrip(ctx, m, w["legacy"], data["sub"], w.get("as_bytes", False))

# C01 - TRXD messages survive encode/decode unchanged.
#
# Monitor shape: round-trip postcondition evaluated by the harness on every
# encode of the real data_msg code: parse_msg(gen_msg(m, legacy)) must equal m
# in every field the protocol defines, and legacy padding must not matter.

from vf import common, msgs
from vf.ref import trxd

SHARDS = {"quick": 1, "thorough": 16}
REUSE = [0]
REUSED = {}


def roundtrip(ctx, m, legacy, sub, as_bytes = False):
	""" One evaluation.  Returns False when a violation was recorded. """
	dm = msgs.data_msg
	obj = msgs.to_real(m)
	try:
		obj.validate()
	except ValueError:
		# outside C01's domain ("every message the toolkit accepts as valid");
		# C13 decides whether refusing it is right
		ctx.count("refused_by_toolkit")
		return True
	witness = {"msg": m, "legacy": legacy, "as_bytes": as_bytes}
	try:
		data = obj.gen_msg(legacy)
		data = bytes(data) if as_bytes else bytearray(data)
		if REUSE[0] % 3 == 0:
			# a receiver may keep one message object and parse datagram after datagram into it:
			# nothing of the previous datagram may survive in a field the new one defines
			new = REUSED.setdefault(m["dir"], dm.TxMsg() if m["dir"] == "tx" else dm.RxMsg())
			ctx.count("parsed_into_a_reused_object")
		else:
			new = dm.TxMsg() if m["dir"] == "tx" else dm.RxMsg()
		REUSE[0] += 1
		new.parse_msg(data)
		if not as_bytes:
			# the receive buffer is re-used for the next datagram: the decoded message must not change with it
			for i in range(len(data)):
				data[i] = 0xa5
			ctx.count("receive_buffer_reused_after_parse")
	except Exception as e:
		ctx.violation(sub, witness, what = "valid message fails to round-trip: %s: %s"
			% (type(e).__name__, e))
		return False
	got = msgs.from_real(new)
	d = msgs.diff(m, got)
	ctx.count("roundtrips")
	ctx.count("class:%s/v%d/%s%s%s" % (m["dir"], m["ver"],
		"nope" if m.get("nope") else (m.get("mod") or str(len(m.get("bits") or m.get("soft") or b""))),
		"/legacy" if legacy else "", ""))
	ctx.seen(trxd.key(m, legacy))
	if d:
		witness["decoded"] = trxd.brief(got)
		ctx.violation(sub, witness, what = "fields differ after decode(encode(m)): %s" % ",".join(d))
		return False
	if m["ver"] == 0 and m["dir"] == "rx" and m.get("soft") is not None and m.get("mod") in ("GMSK", "8PSK"):
		# version 0 knows normal GMSK bursts (148) and 8-PSK bursts (444) only and does not carry the modulation: a message of
		# one of these two decodes to the same modulation again
		ctx.count("v0_modulation_guess_compared")
		if got.get("mod_guess") != m["mod"]:
			witness["decoded"] = trxd.brief(got)
			ctx.violation(sub, witness, what = "version-0 message with a %s burst decodes as modulation %s" % (m["mod"], got.get("mod_guess")))
			return False
	if m["ver"] == 0:
		# legacy padding must not change what is decoded
		try:
			other = dm.TxMsg() if m["dir"] == "tx" else dm.RxMsg()
			other.parse_msg(bytearray(obj.gen_msg(not legacy)))
		except Exception as e:
			ctx.violation(sub, witness, what = "legacy=%s variant fails: %s" % (not legacy, e))
			return False
		d2 = msgs.diff(got, msgs.from_real(other))
		ctx.count("legacy_equivalence_checks")
		if d2:
			ctx.violation(sub, witness, what = "legacy padding changes decoded fields: %s" % ",".join(d2))
			return False
	return True


def enumerated(ctx):
	""" One-dimensional sub-spaces, enumerated completely. """
	r = ctx.rng("enum")
	i = 0
	# all legal (modulation, TSC set, TSC) x {burst, NOPE}
	for (mod, s, t) in trxd.all_mts_triples():
		for nope in (False, True):
			i += 1
			if not ctx.mine(i):
				continue
			m = trxd.rand_rx(r, ver = 1, nope = nope, mod = mod)
			if not nope:
				m["tsc_set"], m["tsc"] = s, t
			roundtrip(ctx, m, False, "enum-mts")
			ctx.count("enum:mts")
	# TSC sets the protocol does not define for a modulation: the toolkit refuses them (C13 decides that); whatever it
	# does accept as valid is inside C01's domain and must come back unchanged
	for mod, (_, _, nsets) in trxd.MODS.items():
		for s in range(nsets, 4):
			i += 1
			if not ctx.mine(i):
				continue
			m = trxd.rand_rx(r, ver = 1, nope = False, mod = mod)
			m["tsc_set"] = s
			roundtrip(ctx, m, False, "enum-mts-undefined")
			ctx.count("enum:mts-undefined")
	# all attenuation octets
	for pwr in range(256):
		i += 1
		if ctx.mine(i):
			m = trxd.rand_tx(r)
			m["pwr"] = pwr
			roundtrip(ctx, m, r.random() < .5, "enum-pwr")
			ctx.count("enum:pwr")
	# all RSSI values
	for rssi in range(-120, -46):
		i += 1
		if ctx.mine(i):
			m = trxd.rand_rx(r)
			m["rssi"] = rssi
			roundtrip(ctx, m, r.random() < .5, "enum-rssi")
			ctx.count("enum:rssi")
	# every soft-bit value at first, last and a random position
	for v in range(-127, 128):
		i += 1
		if ctx.mine(i):
			m = trxd.rand_rx(r)
			if m.get("soft") is None:
				m = trxd.rand_rx(r, ver = 0)
			n = len(m["soft"])
			m["soft"] = list(m["soft"])
			for pos in (0, n - 1, r.randrange(n)):
				m["soft"][pos] = v
			roundtrip(ctx, m, r.random() < .5, "enum-soft")
			ctx.count("enum:soft")
	# one-hot hard-bit bursts at every position
	for n in (148, 444):
		for pos in range(n):
			i += 1
			if ctx.mine(i):
				m = trxd.rand_tx(r, n = n)
				b = bytearray(n)
				b[pos] = 1
				m["bits"] = bytes(b)
				roundtrip(ctx, m, False, "enum-onehot", as_bytes = True)
				ctx.count("enum:onehot")
	# TN x version x direction, ToA / C-I bounds, FN edges
	for tn in range(8):
		for fn in trxd.FN_EDGE:
			i += 1
			if ctx.mine(i):
				m = trxd.rand_msg(r)
				m["tn"], m["fn"] = tn, fn
				roundtrip(ctx, m, r.random() < .5, "enum-hdr")
				ctx.count("enum:hdr")
	for toa in (-32768, -32767, -257, -256, -255, -1, 0, 1, 255, 256, 257, 32766, 32767):
		for ci in (-1280, -1279, -256, -1, 0, 1, 255, 256, 1279, 1280):
			i += 1
			if ctx.mine(i):
				m = trxd.rand_rx(r, ver = 1)
				m["toa256"], m["ci"] = toa, ci
				roundtrip(ctx, m, False, "enum-toa-ci")
				ctx.count("enum:toa-ci")


def run(ctx):
	ctx.rule = ("reference-valid TRXD messages (vf/ref/trxd.valid) generated with boundary bias "
		"plus completely enumerated 1-D sub-spaces (all MTS triples x NOPE, all attenuation octets, "
		"all RSSI, every soft-bit value, one-hot bursts, header edges); each is encoded by the real "
		"gen_msg and decoded by the real parse_msg; distinct = distinct (message, legacy flag) by "
		"hash of all fields and burst content; every generated message is non-trivial")
	ctx.assume("message equality is judged on the fields the protocol defines (NOPE indications have no modulation/TSC)")
	enumerated(ctx)
	r = ctx.rng("random")
	n = ctx.scale(30000, 3000000)
	for k in range(n):
		m = trxd.rand_msg(r)
		legacy = r.random() < 0.5
		ok = True
		with common.case_watchdog(ctx, "random", {"msg": trxd.brief(m), "legacy": legacy}):
			ok = roundtrip(ctx, m, legacy, "random", as_bytes = (k & 1) == 0)
		if k < 3 * ctx.sample_cap:
			ctx.sample("roundtrip:%s/v%d" % (m["dir"], m["ver"]), {"msg": trxd.brief(m), "legacy": legacy})
		if (not ok or ctx.counters.get("cases_that_do_not_terminate")) and ctx.too_many():
			break
	online(ctx)
	ctx.require("roundtrips", 1000)
	ctx.require("legacy_equivalence_checks", 100)
	ctx.require("enum:mts", 1)


def online(ctx):
	""" Messages the simulator really encodes are re-parsed as they leave: Msg.gen_msg is
	    wrapped while a compact forwarding scenario runs (realistic RSSI/ToA, detected TSC,
	    NOPE indications, legacy padding as the transceiver applies it). """
	from vf import radio
	from vf.ref import tsc as tscref
	dm = msgs.data_msg
	real_gen = dm.Msg.gen_msg
	seen = []

	def wrapped(self, legacy = False):
		data = real_gen(self, legacy)
		seen.append((msgs.from_real(self), legacy, bytes(data), type(self)))
		return data
	r = ctx.rng("online")
	dm.Msg.gen_msg = wrapped
	try:
		for cfg in range(ctx.scale(40, 2000)):
			bench = radio.Bench(r.getrandbits(30), [{"base_port": 5700}, {"base_port": 6700}])
			for i, (rx, tx) in enumerate([(890000, 935000), (935000, 890000)]):
				for c in ("RXTUNE %d" % rx, "TXTUNE %d" % tx, "SETFORMAT %d" % r.choice((0, 1)), "POWERON",
						"FAKE_TOA %d %d" % (r.randint(-500, 500), r.choice((0, 20))), "FAKE_CI %d %d" % (r.randint(-100, 300), r.choice((0, 9)))):
					bench.cmd(i, c)
			if r.random() < 0.3:
				bench.cmd(r.randrange(2), "FAKE_DROP %d" % r.randint(1, 5))
			if r.random() < 0.2:
				bench.cmd(r.randrange(2), "RFMUTE 1")
			for b in range(20):
				s = r.randrange(2)
				kind = r.choice(("NB", "SB", "AB", "rnd", "edge"))
				bits = trxd.rand_bits(r, 444) if kind == "edge" else trxd.rand_bits(r, 148) if kind == "rnd" \
					else tscref.place(kind, r.choice(sorted(tscref.TABLES[kind])), r)
				m = {"dir": "tx", "ver": bench.models[s].ver, "fn": trxd.rand_fn(r), "tn": r.randrange(8),
				     "pwr": r.choice((0, 5, 13)), "bits": bits}
				bench.transmit(s, m)
	finally:
		dm.Msg.gen_msg = real_gen
	for (fields, legacy, data, cls) in seen:
		new = cls()
		try:
			new.parse_msg(bytearray(data))
		except Exception as e:
			ctx.violation("online", {"msg": trxd.brief(fields), "legacy": legacy},
				what = "a datagram the simulator really sent does not parse back: %s" % e)
			return
		d = msgs.diff(fields, msgs.from_real(new))
		ctx.count("simulator_origin_roundtrips")
		ctx.count("simulator_origin:%s%s" % ("nope" if fields.get("nope") else "burst", "/legacy" if legacy else ""))
		ctx.seen(trxd.key(fields, legacy))
		if d:
			ctx.violation("online", {"msg": trxd.brief(fields), "legacy": legacy, "decoded": trxd.brief(msgs.from_real(new))},
				what = "a message the simulator really sent differs after decode(encode(m)): %s" % ",".join(d))
			return
	ctx.require("simulator_origin_roundtrips", 200)


def replay(ctx, data):
	w = common.unjson(data["witness"])
	m = w["msg"]
	if m.get("bits") is not None:
		m["bits"] = bytes(m["bits"]) if not isinstance(m["bits"], bytes) else m["bits"]
	ctx.rule = "replay of one recorded case"
	roundtrip(ctx, m, w["legacy"], data["sub"], w.get("as_bytes", False))

# C12 - Power state, child transceivers and clock distribution stay consistent.
#
# Invariant monitor after every command on the real fake_trx.Application,
# instantiated in-process on vnet with its real clock thread running on a gated
# virtual clock: running flags, clock indications per L1 clock port, generator
# state, survival of hopping/queued bursts across POWEROFF, and the port plan.

from vf import common, radio, sched, sim
from vf.ref import trxd, trxc

SHARDS = {"quick": 1, "thorough": 16}
IND_PERIOD = 102


def rand_argv(r):
	bts = r.choice((5700, 5700, 5800, 15700))
	ms = r.choice((6700, 6700, 6900, 16700))
	bind = r.choice(("127.0.0.1", "127.0.0.1", "0.0.0.0"))
	argv = ["-b", bind, "-P", str(bts), "-p", str(ms)]
	# the two L1 peers need not live at the same address
	bts_addr = r.choice(("127.0.0.1", "127.0.0.1", "127.0.0.5"))
	ms_addr = r.choice(("127.0.0.1", "127.0.0.1", "127.0.0.2"))
	if bts_addr != "127.0.0.1" or r.random() < 0.2:
		argv += ["-R", bts_addr]
	if ms_addr != "127.0.0.1" or r.random() < 0.2:
		argv += ["-r", ms_addr]
	plan = [("BTS", bts_addr, bts, 0), ("MS", ms_addr, ms, 0)]
	parents = [(bts_addr, bts), (ms_addr, ms)]
	nchild = {}
	for k in range(r.randint(0, 4)):
		if r.random() < 0.6:
			addr, port = r.choice(parents)
			idx = nchild.get((addr, port), 0) + 1
			if r.random() < 0.15:
				idx = max(idx, r.choice((10, 12, 21)))        # child indices need not be single digits
			nchild[(addr, port)] = idx
			d = "%s:%d/%d" % (addr, port, idx)
		else:
			port = 7700 + 1000 * (len(parents) - 2)
			addr = r.choice(("127.0.0.1", "127.0.0.1", "127.0.0.3"))
			idx = 0
			parents.append((addr, port))
			d = "%s:%d" % (addr, port) if r.random() < .5 else "%s:%d/0" % (addr, port)
		name = None
		if r.random() < 0.4:
			name = "n%d" % k
			d = name + "@" + d
		argv += ["--trx", d]
		plan.append((name, addr, port, idx))
	return argv, bind, plan


def check_ports(ctx, aw, bind, plan, w):
	want = set()
	for (_, addr, base, idx) in plan:
		want.add((bind, base + 1 + 2 * idx))
		want.add((bind, base + 2 + 2 * idx))
		if idx == 0:
			want.add((bind, base))
	got = list(aw.app_binds)
	ctx.count("port_plans_verified")
	if set(got) != want or len(got) != len(want):
		ctx.violation("ports", dict(w, bound = sorted(got), documented = sorted(want)),
			what = "sockets bound by the application differ from base+0/+1/+2 (control/data shifted by 2 per child index, no clock port for children)")
		return False
	return True


def model_from_plan(ctx, bench, plan, w):
	""" The shadow models' structure (who is whose child, who manages children, who owns a clock link)
	    comes from the command line, not from the objects the application built. """
	if len(plan) != len(bench.nodes):
		ctx.violation("structure", dict(w, transceivers = [str(n.trx) for n in bench.nodes]),
			what = "application built %d transceivers for %d definitions" % (len(bench.nodes), len(plan)))
		return False
	by_key = {}
	for i, (name, addr, base, idx) in enumerate(plan):
		t = bench.nodes[i].trx
		if (t.remote_addr, t.base_port, t.child_idx) != (addr, base, idx) or (name is not None and t.name != name):
			ctx.violation("structure", dict(w, index = i, got = [t.remote_addr, t.base_port, t.child_idx, t.name],
				expected = [addr, base, idx, name]), what = "transceiver built with other address / base port / child index / name than defined")
			return False
		m = bench.models[i]
		m.child_idx = idx
		m.has_clock = idx == 0
		m.child_mgt = not (i == 1)        # documented: the MS side does not manage children
		m.children = []
		by_key[(addr, base, idx)] = m
	for (name, addr, base, idx) in plan:
		if idx > 0:
			parent = by_key.get((addr, base, 0))
			if parent is None:
				raise common.HarnessError("generator produced a child without parent")
			parent.children.append(by_key[(addr, base, idx)])
	return True


class ClockModel:
	def __init__(self):
		self.running = False
		self.fn = 0

	def update(self, owners_running):
		if not self.running and owners_running:
			self.running = True
			self.fn = 0                 # (re)start from the start frame
		elif self.running and not owners_running:
			self.running = False


def run_config(ctx, r, idx):
	argv, bind, plan = rand_argv(r)
	w = {"argv": argv}
	try:
		aw = sim.AppWorld(argv, seed = r.getrandbits(30))
	except SystemExit:
		ctx.count("configs_rejected_by_argparse")
		return
	except sim.NothingBound as e:
		ctx.violation("ports", w, what = "no transceiver listens on any port: %s" % e)
		return
	try:
		if not check_ports(ctx, aw, bind, plan, w):
			return
		bench = radio.Bench.from_app(aw)
		if bench.orphans:
			ctx.violation("wiring", dict(w, children = bench.orphans),
				what = "child transceiver(s) %s are attached to their parent but missing from the application's transceiver list "
					"(they get no clock ticks and no bursts)" % ", ".join(bench.orphans))
			return
		if not model_from_plan(ctx, bench, plan, w):
			return
		_run(ctx, r, idx, aw, bench, w)
	finally:
		aw.shutdown()


def _run(ctx, r, idx, aw, bench, w):
	n = len(bench.models)
	names = [m.name for m in bench.models]
	clock = ClockModel()
	log = []
	pool = [890000, 935000, 902000]
	pending = []       # (sender index, burst dict, queued while generation g)  bursts that POWEROFF must discard

	def owners_running():
		return [i for i, m in enumerate(bench.models) if m.has_clock and m.running]

	def cmd(i, text):
		try:
			st, mst = bench.cmd(i, text)
		except common.HarnessError as e:
			ctx.violation("ports", dict(w, history = log[-10:], command = text),
				what = "no reply at the documented remote control port (base+101, +2 per child index): %s" % e)
			return False
		log.append("%s: %s -> %d" % (names[i], text[:60], st))
		ctx.count("cmd:%s:%d" % (text.split(" ")[0], st))
		if isinstance(mst, int) and st != mst:
			ctx.violation("status", dict(w, history = log[-12:]),
				what = "%s answered %d, expected %d" % (text.split(" ")[0], st, mst))
			return False
		clock.update(bool(owners_running()))
		if text == "POWEROFF":
			# discarded by POWEROFF (children included when managed)
			pending[:] = [p for p in pending if bench.models[p[0]].running]
		return True

	def invariants():
		# running flags (hooked attribute, skipped if it does not exist)
		for i, m in enumerate(bench.models):
			got = getattr(bench.nodes[i].trx, "running", None)
			if got is not None and bool(got) != m.running:
				return "transceiver %s is %s, the last effective power command says %s" % (names[i],
					"running" if got else "idle", "running" if m.running else "idle")
		if bool(aw.gen.running) != clock.running:
			return "clock generator is %s although %d clock-owning transceivers are running" % (
				"running" if aw.gen.running else "stopped", len(owners_running()))
		links = getattr(aw.gen, "clck_links", None)
		if links is not None and all(hasattr(bench.nodes[i].trx, "clck_if") for i in owners_running()):
			want = {id(bench.nodes[i].trx.clck_if) for i in owners_running()}
			if {id(l) for l in links} != want or len(links) != len(want):
				return "clock link list holds %d links, %d clock-owning transceivers are running" % (len(links), len(want))
		return None

	# sometimes the L1 of one clock-owning transceiver does not listen on its clock port (trxcon's clock socket
	# may not be open yet): the indications for it are lost, everybody else must be served all the same
	deaf = None
	cands = [i for i, nd in enumerate(bench.nodes) if nd.l1_clck is not None]
	if cands and r.random() < 0.3:
		deaf = r.choice(cands)
		bench.nodes[deaf].l1_clck.close()
		ctx.count("configurations_with_a_closed_l1_clock_port")

	def ticks(k):
		""" release k ticks of the real clock thread and check every clock port """
		for nd in bench.nodes:
			nd.rx_clck()
		log_from = len(aw.net.log)
		if not aw.run_ticks(k):
			if not aw.worker_alive():
				return "the clock generator's thread died while %d transceivers were running: %s" % (
					len(owners_running()), sim.THREAD_ERRORS[-1] if sim.THREAD_ERRORS else "no exception recorded")
			return "clock thread did not complete %d ticks" % k
		want = []
		if clock.running:
			for fn in range(clock.fn, clock.fn + k):
				if (fn % trxd.HYPERFRAME) % IND_PERIOD == 0:
					want.append(b"IND CLOCK %d\0" % (fn % trxd.HYPERFRAME))
			clock.fn += k
			ctx.count("ticks_released", k)
		for i, nd in enumerate(bench.nodes):
			got = nd.rx_clck()
			m = bench.models[i]
			exp = want if (m.has_clock and m.running) else []
			if i == deaf:
				# nobody listens: what was sent towards that port is taken from the network log
				dst = nd.l1_clck.addr
				got = [e[3] for e in aw.net.log[log_from:] if e[2] == dst and not e[4]]
				ctx.count("indications_sent_to_a_closed_port", len(got))
			ctx.count("clock_ports_checked")
			if exp:
				ctx.count("clock_indications_expected", len(exp))
			if got != exp:
				return "L1 clock port of %s (%s) received %r, expected %r" % (names[i],
					"running" if m.running else "not running / no clock", got[:3], exp[:3])
		return None

	# tune everything first (children included), then play
	for i in range(n):
		x = r.random()
		if x < 0.8:
			if not (cmd(i, "RXTUNE %d" % r.choice(pool)) and cmd(i, "TXTUNE %d" % r.choice(pool))):
				return
		elif x < 0.9:
			# half tuned: not ready, POWERON has to be refused until the other frequency (or hopping) is set
			if not cmd(i, "%s %d" % (r.choice(("RXTUNE", "TXTUNE")), r.choice(pool))):
				return
			ctx.count("half_tuned_transceivers")
	force_ticks = 0
	for step in range(r.randint(20, 45)):
		i = r.randrange(n)
		x = r.random()
		if x < 0.35:
			ok = cmd(i, "POWERON")
		elif x < 0.6:
			ok = cmd(i, "POWEROFF")
		elif x < 0.7:
			ok = cmd(i, "RXTUNE %d" % r.choice(pool)) if r.random() < 0.85 else True
			ok = ok and (cmd(i, "TXTUNE %d" % r.choice(pool)) if r.random() < 0.85 else True)
		elif x < 0.8:
			ma = " ".join("%d %d" % (r.choice(pool), r.choice(pool)) for _ in range(r.randint(1, 4)))
			ok = cmd(i, "SETFH %d %d %s" % (r.randrange(64), r.randrange(4), ma))
		elif x < 0.9 and clock.running:
			# queue a burst for a future frame: it must be emitted in that frame unless POWEROFF intervenes
			# only transceivers with a defined transmit frequency take part in traffic (an untuned child
			# powered on through its parent has none: the property does not define what it reaches)
			tuned = [j for j in range(n) if bench.models[j].fh is not None or bench.models[j].tx_khz is not None]
			if not tuned:
				continue
			s = r.choice(tuned)
			m = bench.models[s]
			fn = (clock.fn + r.randint(3, 40)) % trxd.HYPERFRAME
			b = {"dir": "tx", "ver": m.ver, "fn": fn, "tn": r.randrange(8), "pwr": 0, "bits": trxd.rand_bits(r, 148)}
			acc = bench.nodes[s].data_raw(trxd.encode(b)) is not None
			ctx.count("bursts_queued")
			if acc != m.running:
				ctx.violation("running", dict(w, history = log[-12:], sender = names[s]),
					what = "burst %s by a transceiver whose last effective power command says %s" % (
						"accepted" if acc else "refused", "running" if m.running else "idle"))
				return
			if acc:
				pending.append((s, b))
			ok = True
		elif x < 0.97 and clock.running and clock.fn < 1500:
			# power cycle with a burst in the queue: POWEROFF must discard it for good
			ok = True
			runners = [j for j in range(n) if bench.models[j].running and bench.models[j].fh is None
				and bench.models[j].tx_khz is not None]
			if len(runners) >= 2:
				s, j = r.sample(runners, 2)
				ok = cmd(j, "RXTUNE %d" % bench.models[s].tx_khz)
				fn = clock.fn + r.randint(2, 12)
				b = {"dir": "tx", "ver": bench.models[s].ver, "fn": fn, "tn": 0, "pwr": 0, "bits": trxd.rand_bits(r, 148)}
				if ok and bench.nodes[s].data_raw(trxd.encode(b)) is None:
					ctx.violation("running", dict(w, history = log[-12:], sender = names[s]), what = "burst refused by a running transceiver")
					return
				pending.append((s, b))
				ok = ok and cmd(s, "POWEROFF") and cmd(s, "POWERON")
				ctx.count("power_cycles_with_queued_burst")
				if ok and clock.running:
					force_ticks = fn - clock.fn + 3 if clock.fn <= fn else 3
		else:
			ok = True
		if not ok:
			return
		err = invariants()
		ctx.count("invariant_checks")
		ctx.seen(hash((ctx.shard[0], idx, step)))
		if err:
			ctx.violation("invariant", dict(w, history = log[-14:]), what = err)
			return
		if force_ticks or r.random() < 0.5:
			k = force_ticks or r.choice((1, 5, 60, 110, 250))
			force_ticks = 0
			for nd in bench.nodes:
				nd.rx_data()
			before = clock.fn
			err = ticks(k)
			if err:
				ctx.violation("clock", dict(w, history = log[-14:]), what = err)
				return
			# data plane: exactly the bursts still queued (not discarded by a POWEROFF) whose frame fell
			# into the released ticks may have been emitted
			got = {j: nd.rx_data() for j, nd in enumerate(bench.nodes)}
			due = [p for p in pending if before <= p[1]["fn"] < before + k] if clock.running else []
			pending[:] = [p for p in pending if p not in due]
			allowed = {}
			for (s, b) in due:
				for j in bench.recipients(s, b["fn"]):
					allowed.setdefault(j, []).append(b)
			for j, dgs in got.items():
				bursts = []
				for d in dgs:
					try:
						dd = trxd.decode(d, "rx")
					except ValueError:
						dd = None
					if dd is None or dd.get("nope"):
						continue
					bursts.append(dd)
				ok_fns = sorted(b["fn"] for b in allowed.get(j, []))
				got_fns = sorted(dd["fn"] for dd in bursts)
				if got_fns != ok_fns:
					ctx.violation("queue", dict(w, history = log[-60:], recipient = names[j], got_fns = got_fns, expected_fns = ok_fns),
						what = "bursts emitted after the ticks differ from those still queued "
							"(POWEROFF must discard the queue; nothing from before it may be sent later)")
					return
				ctx.count("queued_bursts_emitted", len(got_fns))
	if idx < 3:
		ctx.sample("config", {"argv": w["argv"], "transceivers": names, "history_tail": log[-8:]})
	ctx.count("configurations")
	ctx.count("config_size_%d" % n)


# ---- a power command served while the clock thread distributes an indication ----------------------------

def all_functions(cls):
	import types
	# (not __del__: a finaliser runs wherever the garbage collector happens to, also inside the harness's own critical sections)
	return [k for k, v in vars(cls).items() if isinstance(v, types.FunctionType) and k != "__del__"]


def make_sched(gran):
	sc = sched.Sched(gran)
	for cls in (sim.clck_gen.CLCKGen, sim.transceiver.Transceiver, sim.fake_trx.FakeTRX, sim.fake_trx.Application,
			sim.udp_link.UDPLink):
		for name in all_functions(cls):
			sc.watch(cls, name)
	sc.watch(sim.transceiver.CTRLInterfaceTRX, "parse_cmd")
	return sc


def race_case(sc, nparents, target, command, start, switches):
	""" nparents clock-owning transceivers are running (all but `target` when the command is POWERON); the socket
	    thread serves `command` for `target` while the clock thread runs CLCKGen.send_clck_ind() for an indication
	    frame.  Every transceiver that runs before and after must get that indication exactly once. """
	import _thread
	argv = ["-b", "127.0.0.1"]
	for k in range(nparents - 2):
		argv += ["--trx", "127.0.0.1:%d" % (7700 + 1000 * k)]
	aw = sim.AppWorld(argv, seed = 1)
	try:
		owners = [nd for nd in aw.nodes if nd.l1_clck is not None]
		if len(owners) != nparents:
			raise common.HarnessError("expected %d clock-owning transceivers, the application built %d" % (nparents, len(owners)))
		for nd in aw.nodes:
			for k, v in list(vars(nd.trx).items()):
				if isinstance(v, (_thread.LockType, _thread.RLock)):
					setattr(nd.trx, k, sched.BatonLock(sc))
		for i, nd in enumerate(owners):
			nd.ctrl("RXTUNE %d" % (890000 + 200 * i))
			nd.ctrl("TXTUNE %d" % (935000 + 200 * i))
			if not (command == "POWERON" and i == target):
				if nd.ctrl("POWERON") != 0:
					return "POWERON refused while setting up", None
		gen = aw.gen
		period = gen.ind_period
		fn = 7 * period
		gen.clck_src = fn
		for nd in owners:
			nd.rx_clck()
		x = owners[target]
		x.l1_ctrl.sendto(("CMD %s\0" % command).encode(), x.ctrl_port)
		info = sc.run(lambda: x.trx.ctrl_if.handle_rx(), lambda: gen.send_clck_ind(), start, switches, timeout = 60.0)
		if info["hung"]:
			return "deadlock", info
		for i, e in enumerate(info["errors"]):
			if e is not None:
				return "%s thread raised %s: %s" % (("socket", "clock")[i], type(e).__name__, e), info
		rsp = [d for d, _ in x.l1_ctrl.take_all()]
		if len(rsp) != 1 or not rsp[0].startswith(("RSP %s 0" % command).encode()):
			return "%s answered %r" % (command, rsp), info
		want = ("IND CLOCK %d\0" % fn).encode()
		for i, nd in enumerate(owners):
			got = nd.rx_clck()
			if i == target:
				if got not in ([], [want]):
					return "the transceiver being switched received %r" % got, info
				continue
			if got != [want]:
				return ("transceiver %d of %d, running before and after the command, received %d clock indications for frame %d "
					"(expected exactly one) while %s was served for transceiver %d" % (i, nparents, len(got), fn, command, target)), info
		# afterwards (sequentially) the next indication reaches exactly the running ones
		gen.clck_src = fn + period
		gen.send_clck_ind()
		for i, nd in enumerate(owners):
			got = nd.rx_clck()
			runs = (command == "POWERON") if i == target else True
			if (len(got) == 1) != runs or len(got) > 1:
				return "after the race: transceiver %d (%s) received %d indications for the next period" % (
					i, "running" if runs else "off", len(got)), info
		return None, info
	finally:
		aw.shutdown()


def racing_power(ctx, r, gran):
	sc = make_sched(gran)
	sc.install()
	distinct = set()
	try:
		cfgs = [(n, t, c) for n in (2, 3, 4) for t in range(n) for c in ("POWEROFF", "POWERON")]
		r.shuffle(cfgs)
		if ctx.tier == "quick":
			pick = []
			for c in ("POWEROFF", "POWERON"):
				pick += [x for x in cfgs if x[2] == c and x[1] == 0][:1] + [x for x in cfgs if x[2] == c and x[1] > 0][:2]
			cfgs = pick
		for cfg in cfgs:
			err, info = race_case(sc, cfg[0], cfg[1], cfg[2], 0, [])
			if err:
				ctx.violation("racing-power", {"config": cfg, "switches": [], "granularity": gran}, what = err)
				return
			n = info["points"]
			ctx.count("race_decision_points:" + gran, n)
			if n < 5:
				ctx.inconclusive_because("scheduler saw only %d decision points" % n)
				return
			plans = [(st, [p1]) for st in (0, 1) for p1 in range(1, n + 2)]
			for _ in range(ctx.scale(30, 800)):
				plans.append((r.randrange(2), sorted(r.sample(range(1, n + 3), r.choice((2, 2, 3, 4))))))
			for (st, sw) in plans:
				err, info = race_case(sc, cfg[0], cfg[1], cfg[2], st, sw)
				if err == "deadlock":
					err, info = race_case(sc, cfg[0], cfg[1], cfg[2], st, sw)
				if err == "deadlock":
					# a wall-clock watchdog fired twice: not a verdict on the property
					ctx.inconclusive_because("controlled run hung twice (schedule %r of %r)" % ((st, sw), cfg))
					return
				ctx.count("race_schedules_run")
				key = (gran, cfg, st, tuple(info["trace"]) if info else None)
				distinct.add(key)
				ctx.seen(hash(key))
				if err:
					ctx.violation("racing-power", {"clock_owning_transceivers": cfg[0], "command": cfg[2], "target": cfg[1],
						"granularity": gran, "start_thread": ("socket", "clock")[st], "switches": sw,
						"executed_switches": info["trace"] if info else None},
						what = "%s served while the clock thread distributes an indication: %s" % (cfg[2], err),
						mechanism = "clock-links-changed-while-distributing" if "running before and after" in err else None)
					return
				if ctx.time_left() < 0:
					return
	finally:
		sc.uninstall()
		ctx.count("race_distinct_schedules", len(distinct))


def run(ctx):
	ctx.rule = ("random application configurations (BTS/MS base ports, bind address, 0..4 --trx definitions with and without /idx, named) "
		"instantiated as the real fake_trx.Application; 20-45 commands (POWERON/POWEROFF/RXTUNE/TXTUNE/SETFH to any transceiver, incl. "
		"untuned, double POWERON, child POWEROFF while the parent runs) and queued bursts, with 1..250 clock ticks released in between; "
		"a POWERON/POWEROFF served by the socket thread while the clock thread distributes a clock indication among 2-4 clock-owning "
		"transceivers, under the baton scheduler (line granularity and CPython switch points; every single preemption point, random "
		"multi-switch plans): transceivers running before and after get the indication exactly once; "
		"distinct = distinct (configuration, step) and executed switch traces; all non-trivial")
	ctx.assume("sys.argv, sockets (vnet), logging initialisation and the clock generator's time source are replaced from outside")
	r = ctx.rng("c12")
	for i in range(ctx.scale(800, 30000)):
		with common.case_watchdog(ctx, "config", {"case": i}, first = 60, second = 60):
			run_config(ctx, ctx.case_rng("config", i), i)
		if ctx.too_many() or ctx.time_left() < 0:
			break
	ctx.current_case = None
	import os
	for gran in os.environ.get("VERIF_GRAN", "line,switch").split(","):
		racing_power(ctx, r, gran)
	sim.restore_time()
	ctx.require("race_schedules_run", 200)
	ctx.require("configurations", 50)
	ctx.require("invariant_checks", 2000)
	ctx.require("clock_indications_expected", 200)
	ctx.require("clock_ports_checked", 1000)
	ctx.require("port_plans_verified", 50)
	ctx.require("cmd:POWERON:0", 200)
	ctx.require("cmd:POWERON:-1", 100)
	ctx.require("queued_bursts_emitted", 20)
	ctx.require("power_cycles_with_queued_burst", 20)


def replay(ctx, data):
	if common.replay_case(ctx, data, {"config": run_config}):
		return
	ctx.rule = "replay: no case coordinates in the witness; rerunning the check with the recorded seed"
	ctx.seed = data.get("seed", 0)
	run(ctx)

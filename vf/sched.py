# sched - controlled interleavings of two threads (socket thread vs clock
# thread of the simulator) by passing a baton at sys.monitoring LINE (or
# INSTRUCTION) events of a chosen set of functions.
#
# Granularities: "line" and "instruction" hand over at every LINE / INSTRUCTION
# event (finer than CPython 3.12 itself ever switches: a superset of its
# schedules); "switch" hands over only where CPython 3.12 really checks for a
# pending thread switch: on entry of a Python function (a call to one, or the
# start of a watched one), after a C function returns or raises, and on
# backward jumps (loops) - plus acquiring / releasing the transceiver's locks.
#
# A schedule is (start thread, sorted switch positions): the running thread
# hands the baton over when the global count of decision points reaches a
# switch position.  Blocking on the transceiver's queue lock is a forced
# hand-over (BatonLock), never a hang.

import sys
import threading

mon = sys.monitoring
TOOL = 4


class BatonLock:
	""" Same `with` protocol as threading.Lock; acquire() never blocks while
	    holding the baton: it yields to the other thread and retries. """

	def __init__(self, sched):
		self.sched = sched
		self.owner = None
		self.acquisitions = 0
		self.contended = 0

	def acquire(self, blocking = True, timeout = -1):
		s = self.sched
		me = threading.current_thread()
		s.point()
		while self.owner is not None and self.owner is not me:
			self.contended += 1
			s.contended += 1
			if not s.active or not s.yield_forced(me):
				# outside a controlled run (or the other thread is gone): plain semantics
				if self.owner is None:
					break
				raise RuntimeError("BatonLock: deadlock (lock held by a finished/blocked thread)")
		self.owner = me
		self.acquisitions += 1
		return True

	def release(self):
		self.owner = None
		self.sched.point()

	def __enter__(self):
		self.acquire()
		return self

	def __exit__(self, *a):
		self.release()

	def locked(self):
		return self.owner is not None


class Sched:
	def __init__(self, granularity = "line"):
		self.cond = threading.Condition()
		self.active = False
		self.codes = []
		self.granularity = granularity
		self.event = mon.events.LINE if granularity == "line" else mon.events.INSTRUCTION
		self.contended = 0
		self.missing = []

	# ---- setup ----
	def watch(self, owner, name):
		fn = getattr(owner, name, None)
		code = getattr(fn, "__code__", None)
		if code is None:
			self.missing.append("%s.%s" % (getattr(owner, "__name__", owner), name))
			return
		self.codes.append(code)

	def install(self):
		try:
			mon.use_tool_id(TOOL, "verif-sched")
		except ValueError:
			pass
		if self.granularity == "switch":
			E = mon.events
			mon.register_callback(TOOL, E.PY_START, self._on_event)
			mon.register_callback(TOOL, E.PY_RESUME, self._on_event)
			mon.register_callback(TOOL, E.CALL, self._on_call)
			mon.register_callback(TOOL, E.C_RETURN, self._on_event)
			mon.register_callback(TOOL, E.C_RAISE, self._on_event)
			mon.register_callback(TOOL, E.JUMP, self._on_jump)
			for c in self.codes:
				mon.set_local_events(TOOL, c, E.PY_START | E.PY_RESUME | E.CALL | E.JUMP)
			return
		mon.register_callback(TOOL, self.event, self._on_event)
		for c in self.codes:
			mon.set_local_events(TOOL, c, self.event)

	def uninstall(self):
		for c in self.codes:
			try:
				mon.set_local_events(TOOL, c, 0)
			except Exception:
				pass
		if self.granularity == "switch":
			E = mon.events
			for ev in (E.PY_START, E.PY_RESUME, E.CALL, E.C_RETURN, E.C_RAISE, E.JUMP):
				mon.register_callback(TOOL, ev, None)
		else:
			mon.register_callback(TOOL, self.event, None)
		try:
			mon.free_tool_id(TOOL)
		except Exception:
			pass

	# ---- one controlled run ----
	def run(self, fa, fb, start, switches, timeout = 20.0):
		""" Run fa() and fb() in two threads under schedule (start in {0,1}, switch positions).
		    Returns dict: trace (list of (thread, position) of executed switches), points, errors, deadlock. """
		import gc
		gc_was = gc.isenabled()
		gc.disable()       # finalisers must not run at arbitrary points of a controlled run
		self.active = True
		self.turn = start
		self.points = 0
		self.switches = sorted(switches)
		self.sw_i = 0
		self.done = [False, False]
		self.errors = [None, None]
		self.trace = []
		self.per_thread_points = [0, 0]
		self.deadlock = False
		self.threads = [None, None]

		def body(i, f):
			with self.cond:
				while self.turn != i and not self.deadlock:
					self.cond.wait(0.5)
			try:
				f()
			except BaseException as e:
				self.errors[i] = e
			with self.cond:
				self.done[i] = True
				self.turn = 1 - i
				self.cond.notify_all()

		ta = threading.Thread(target = body, args = (0, fa), daemon = True)
		tb = threading.Thread(target = body, args = (1, fb), daemon = True)
		self.threads = [ta, tb]
		ta.start()
		tb.start()
		ta.join(timeout)
		tb.join(timeout)
		hung = ta.is_alive() or tb.is_alive()
		if hung:
			with self.cond:
				self.deadlock = True
				self.turn = -1
				self.cond.notify_all()
		self.active = False
		if gc_was:
			gc.enable()
		return {"trace": list(self.trace), "points": self.points, "per_thread": list(self.per_thread_points),
			"errors": list(self.errors), "hung": hung}

	def _index(self, th):
		if th is self.threads[0]:
			return 0
		if th is self.threads[1]:
			return 1
		return None

	def _on_event(self, code, *a):
		if not self.active:
			return
		i = self._index(threading.current_thread())
		if i is None:
			return
		with self.cond:
			self.points += 1
			self.per_thread_points[i] += 1
			if self.sw_i < len(self.switches) and self.points >= self.switches[self.sw_i]:
				self.sw_i += 1
				if not self.done[1 - i]:
					self.trace.append((i, self.per_thread_points[i]))
					self._handover(i)

	def _on_call(self, code, offset, callee, arg0):
		# calling a Python-level callable enters its RESUME at once: a switch opportunity right here;
		# a C callable gives one when it returns (C_RETURN / C_RAISE)
		import types
		if isinstance(callee, (types.FunctionType, types.MethodType, type)):
			self._on_event(code)

	def _on_jump(self, code, offset, dest):
		if dest < offset:
			self._on_event(code)

	def point(self):
		""" An explicit decision point (lock acquire / release at "switch" granularity). """
		if self.granularity == "switch":
			self._on_event(None)

	def _handover(self, i):
		""" with self.cond held: give the baton to the other thread and wait for it back """
		self.turn = 1 - i
		self.cond.notify_all()
		while self.turn != i and not self.deadlock:
			self.cond.wait(0.5)

	def yield_forced(self, th):
		""" Called by BatonLock when the lock is held by the other thread.
		    Returns False if the other thread cannot run (finished). """
		i = self._index(th)
		if i is None:
			return False
		with self.cond:
			if self.done[1 - i]:
				return False
			self.trace.append((i, -self.per_thread_points[i]))   # negative: forced by the lock
			self._handover(i)
		return True

/* harness shim: minimal implementations of the libosmocore API used by
 * trxcon's trx_if.c (see the headers next to this file).  Trusted base. */
#include <stdio.h>
#include <stdlib.h>
#include <stdarg.h>
#include <string.h>
#include <unistd.h>
#include <sys/socket.h>

#include <osmocom/core/utils.h>
#include <osmocom/core/fsm.h>
#include <osmocom/core/timer.h>
#include <osmocom/core/select.h>
#include <osmocom/core/socket.h>
#include <osmocom/gsm/gsm_utils.h>

void osmo_panic(const char *fmt, ...)
{
	va_list ap;
	va_start(ap, fmt);
	fprintf(stderr, "OSMO_PANIC: ");
	vfprintf(stderr, fmt, ap);
	va_end(ap);
	fflush(NULL);
	abort();
}

/* ---- timers: recorded, never fired unless the driver does so ---- */
unsigned long shim_timer_schedules, shim_timer_dels;
void osmo_timer_schedule(struct osmo_timer_list *t, int sec, int usec)
{
	t->active = 1; t->sched_sec = sec; t->sched_usec = usec;
	shim_timer_schedules++;
}
void osmo_timer_del(struct osmo_timer_list *t)
{
	t->active = 0;
	shim_timer_dels++;
}
int osmo_timer_pending(struct osmo_timer_list *t) { return t->active; }

/* ---- select ---- */
int osmo_fd_register(struct osmo_fd *fd) { return 0; }
void osmo_fd_unregister(struct osmo_fd *fd) { }

/* ---- sockets: socketpair, far end belongs to the driver ---- */
int shim_peer_fd[8];
uint16_t shim_local_port[8], shim_remote_port[8];
int shim_nsock;
int osmo_sock_init2_ofd(struct osmo_fd *ofd, int family, int type, int proto,
	const char *local_host, uint16_t local_port,
	const char *remote_host, uint16_t remote_port, unsigned int flags)
{
	int sv[2];
	if (shim_nsock >= 8)
		return -1;
	if (socketpair(AF_UNIX, SOCK_DGRAM, 0, sv) < 0)
		return -1;
	ofd->fd = sv[0];
	ofd->when = OSMO_FD_READ;
	shim_peer_fd[shim_nsock] = sv[1];
	shim_local_port[shim_nsock] = local_port;
	shim_remote_port[shim_nsock] = remote_port;
	shim_nsock++;
	return sv[0];
}

/* ---- FSM ---- */
int shim_parent_events, shim_last_parent_event = -1;
int osmo_fsm_register(struct osmo_fsm *fsm) { return 0; }

struct osmo_fsm_inst *osmo_fsm_inst_alloc_child(struct osmo_fsm *fsm, struct osmo_fsm_inst *parent,
	uint32_t parent_term_event)
{
	struct osmo_fsm_inst *fi = calloc(1, sizeof(*fi));
	fi->fsm = fsm;
	fi->name = fsm->name;
	fi->id = "shim";
	fi->proc.parent = parent;
	fi->proc.parent_term_event = parent_term_event;
	return fi;
}

void osmo_fsm_inst_free(struct osmo_fsm_inst *fi)
{
	free(fi);
}

int osmo_fsm_inst_state_chg(struct osmo_fsm_inst *fi, uint32_t new_state, unsigned long timeout_secs, int T)
{
	const struct osmo_fsm_state *st;
	if (fi->state >= fi->fsm->num_states || new_state >= fi->fsm->num_states) {
		fi->shim_bad_transitions++;
		return -1;
	}
	st = &fi->fsm->states[fi->state];
	if (!(st->out_state_mask & (1u << new_state))) {
		/* libosmocore logs an error and refuses the transition */
		fi->shim_bad_transitions++;
		return -1;
	}
	fi->state = new_state;
	return 0;
}

void osmo_fsm_inst_term(struct osmo_fsm_inst *fi, enum osmo_fsm_term_cause cause, void *data)
{
	struct osmo_fsm_inst *parent = fi->proc.parent;
	uint32_t ev = fi->proc.parent_term_event;
	fi->shim_terminated = 1;
	fi->shim_term_cause = cause;
	if (fi->fsm->cleanup)
		fi->fsm->cleanup(fi, cause);
	if (parent) {
		shim_parent_events++;
		shim_last_parent_event = ev;
	}
	/* libosmocore frees the instance here; the shim keeps the (small) object
	 * alive so that the driver can still read shim_terminated */
}

/* ---- gsm_freq102arfcn: search inverse of the real gsm_arfcn2freq10 ---- */
uint16_t gsm_freq102arfcn(uint16_t freq10, int uplink)
{
	unsigned a;
	for (a = 0; a < 1024; a++)
		if (gsm_arfcn2freq10(a, uplink) == freq10)
			return a;
	for (a = 512; a <= 810; a++)
		if (gsm_arfcn2freq10(a | ARFCN_PCS, uplink) == freq10)
			return a | ARFCN_PCS;
	return 0xffff;
}


/* ---- logging: format and discard ---- */
unsigned long shim_log_calls;
void shim_log(const char *fmt, ...)
{
	static char scratch[8192];
	va_list ap;
	va_start(ap, fmt);
	vsnprintf(scratch, sizeof(scratch), fmt, ap);
	va_end(ap);
	shim_log_calls++;
}

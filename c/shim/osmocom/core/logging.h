#pragma once
/* harness shim: logging is a no-op (arguments are not evaluated, like a
 * disabled log level in libosmocore) */
#define LOGL_DEBUG 1
#define LOGL_INFO 3
#define LOGL_NOTICE 5
#define LOGL_ERROR 7
#define LOGL_FATAL 8
#define DLGLOBAL (-1)
#define LOGP(ss, level, fmt, args...) do { } while (0)
#define LOGPC(ss, level, fmt, args...) do { } while (0)
#define DEBUGP(ss, fmt, args...) do { } while (0)

#pragma once
/* harness shim: log statements are formatted into a scratch buffer and thrown away, as an enabled
 * log level would do in libosmocore: their arguments are evaluated and every %s argument is read up
 * to its terminator - under the sanitizers' eyes */
void shim_log(const char *fmt, ...) __attribute__((format(printf, 1, 2)));
#define LOGL_DEBUG 1
#define LOGL_INFO 3
#define LOGL_NOTICE 5
#define LOGL_ERROR 7
#define LOGL_FATAL 8
#define DLGLOBAL (-1)
#define LOGP(ss, level, fmt, args...) shim_log(fmt, ## args)
#define LOGPC(ss, level, fmt, args...) shim_log(fmt, ## args)
#define DEBUGP(ss, fmt, args...) shim_log(fmt, ## args)

#pragma once
#include <osmocom/core/linuxlist.h>
struct osmo_timer_list {
	int active;
	unsigned long sched_sec, sched_usec;
	void (*cb)(void *);
	void *data;
};
void osmo_timer_schedule(struct osmo_timer_list *t, int sec, int usec);
void osmo_timer_del(struct osmo_timer_list *t);
int osmo_timer_pending(struct osmo_timer_list *t);
extern unsigned long shim_timer_schedules, shim_timer_dels;

#pragma once
#include <stdint.h>
#include <sys/socket.h>
#include <osmocom/core/select.h>
#define OSMO_SOCK_F_CONNECT (1 << 0)
#define OSMO_SOCK_F_BIND (1 << 1)
#define OSMO_SOCK_F_NONBLOCK (1 << 2)
/* shim: creates an AF_UNIX/SOCK_DGRAM socketpair; the far end is kept for the
 * driver in shim_peer_fd[] (in order of creation), ports are recorded */
int osmo_sock_init2_ofd(struct osmo_fd *ofd, int family, int type, int proto,
	const char *local_host, uint16_t local_port,
	const char *remote_host, uint16_t remote_port, unsigned int flags);
extern int shim_peer_fd[8];
extern uint16_t shim_local_port[8], shim_remote_port[8];
extern int shim_nsock;

#pragma once
#include <stdlib.h>
/* shim: plain heap objects so that ASan sees exact object bounds */
#define talloc_zero(ctx, type) ((type *)calloc(1, sizeof(type)))
#define talloc_free(p) free(p)
#define talloc_size(ctx, n) malloc(n)

#pragma once
#include <stdint.h>
#include <stddef.h>
#include <stdbool.h>
#ifndef ARRAY_SIZE
#define ARRAY_SIZE(x) (sizeof(x) / sizeof((x)[0]))
#endif
struct value_string { unsigned int value; const char *str; };
void osmo_panic(const char *fmt, ...);
#define OSMO_ASSERT(exp) do { if (!(exp)) osmo_panic("Assert failed %s %s:%d\n", #exp, __FILE__, __LINE__); } while (0)
#define OSMO_STRINGIFY(x) #x
#ifndef OSMO_MAX
#define OSMO_MAX(a, b) ((a) >= (b) ? (a) : (b))
#define OSMO_MIN(a, b) ((a) >= (b) ? (b) : (a))
#endif
#define OSMO_DEPRECATED(text)
#define osmo_static_assert(exp, name) typedef int dummy##name [(exp) ? 1 : -1] __attribute__((__unused__));

#pragma once
/* harness shim: minimal osmo_fsm (state change with out_state_mask check,
 * termination calling the cleanup callback and recording the parent event) */
#include <stdint.h>
#include <osmocom/core/linuxlist.h>
#include <osmocom/core/utils.h>
#include <osmocom/core/logging.h>

struct osmo_fsm_inst;
enum osmo_fsm_term_cause {
	OSMO_FSM_TERM_PARENT,
	OSMO_FSM_TERM_REQUEST,
	OSMO_FSM_TERM_REGULAR,
	OSMO_FSM_TERM_ERROR,
	OSMO_FSM_TERM_TIMEOUT,
};
struct osmo_fsm_state {
	uint32_t in_event_mask;
	uint32_t out_state_mask;
	const char *name;
	void (*action)(struct osmo_fsm_inst *fi, uint32_t event, void *data);
	void (*onenter)(struct osmo_fsm_inst *fi, uint32_t prev_state);
	void (*onleave)(struct osmo_fsm_inst *fi, uint32_t next_state);
};
struct osmo_fsm {
	struct llist_head list;
	struct llist_head instances;
	const char *name;
	const struct osmo_fsm_state *states;
	unsigned int num_states;
	uint32_t allstate_event_mask;
	void (*allstate_action)(struct osmo_fsm_inst *fi, uint32_t event, void *data);
	void (*cleanup)(struct osmo_fsm_inst *fi, enum osmo_fsm_term_cause cause);
	int (*timer_cb)(struct osmo_fsm_inst *fi);
	const struct value_string *event_names;
	int log_subsys;
	void (*pre_term)(struct osmo_fsm_inst *fi, enum osmo_fsm_term_cause cause);
};
struct osmo_fsm_inst {
	struct llist_head list;
	struct osmo_fsm *fsm;
	const char *id;
	const char *name;
	void *priv;
	int log_level;
	uint32_t state;
	int T;
	struct {
		struct osmo_fsm_inst *parent;
		uint32_t parent_term_event;
	} proc;
	/* shim bookkeeping */
	int shim_terminated;
	int shim_term_cause;
	int shim_bad_transitions;
};
int osmo_fsm_register(struct osmo_fsm *fsm);
struct osmo_fsm_inst *osmo_fsm_inst_alloc_child(struct osmo_fsm *fsm, struct osmo_fsm_inst *parent,
	uint32_t parent_term_event);
void osmo_fsm_inst_free(struct osmo_fsm_inst *fi);
int osmo_fsm_inst_state_chg(struct osmo_fsm_inst *fi, uint32_t new_state, unsigned long timeout_secs, int T);
void osmo_fsm_inst_term(struct osmo_fsm_inst *fi, enum osmo_fsm_term_cause cause, void *data);
extern int shim_parent_events, shim_last_parent_event;
#include <osmocom/core/logging.h>
#define LOGPFSML(fi, level, fmt, args...) shim_log(fmt, ## args)
#define LOGPFSMSL(fi, ss, level, fmt, args...) shim_log(fmt, ## args)
#define LOGPFSM(fi, fmt, args...) shim_log(fmt, ## args)

#pragma once
void osmo_panic(const char *fmt, ...);

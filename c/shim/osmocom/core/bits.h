/* harness shim: the parts of modern libosmocore's bits.h that trxcon uses */
#pragma once
#include <stdint.h>
typedef int8_t sbit_t;
typedef uint8_t ubit_t;
typedef uint8_t pbit_t;
static inline uint32_t osmo_load32be(const void *p)
{
	const uint8_t *q = p;
	return ((uint32_t)q[0] << 24) | ((uint32_t)q[1] << 16) | ((uint32_t)q[2] << 8) | q[3];
}
static inline void osmo_store32be(uint32_t x, void *p)
{
	uint8_t *q = p;
	q[0] = x >> 24; q[1] = x >> 16; q[2] = x >> 8; q[3] = x;
}

/* sched_lookup_main - wrapped around the text of trxcon's l1sched_pull_burst() and
 * l1sched_handle_rx_burst() (sched_trx.c), which the harness cuts out of /repo's file: the frame
 * lookup "frames[fn % period]" as the scheduler really performs it.  Linked with the real
 * sched_mframe.c.  Every logical channel has recording Tx / Rx handlers here and an active
 * channel state, so each call reports which (channel, burst id) the real code selected.
 *
 * output: "u <config> <tn> <fn> <chan> <bid>" (Uplink pull) and "d <config> <tn> <fn> <chan> <bid> <rc>" (Downlink burst)
 *         for the first two periods, the frames around multiples of 256 and 65536, and the last two periods of the hyperframe
 */
#ifdef LOOKUP_PART_1
#include <stdio.h>
#include <stdlib.h>
#include <stdint.h>
#include <string.h>
#include <errno.h>
#include <stdbool.h>

#include <osmocom/core/linuxlist.h>
#include <osmocom/core/logging.h>
#include <osmocom/bb/l1sched/l1sched.h>
#include <osmocom/bb/l1sched/logging.h>

#ifndef llist_first_entry_or_null
#define llist_first_entry_or_null(head, type, member) \
	(llist_empty(head) ? NULL : llist_entry((head)->next, type, member))
#endif

int l1sched_log_cat_common, l1sched_log_cat_data;

static int rec_chan = -1, rec_bid = -1;
static struct l1sched_lchan_state lchans[_L1SCHED_CHAN_MAX];
static int rec_on, rec_n;
static struct { uint32_t fn; int chan, bid; } rec_list[512];

static int rec_tx(struct l1sched_lchan_state *lchan, struct l1sched_burst_req *br)
{
	rec_chan = lchan->type;
	rec_bid = br->bid;
	return 0;
}

static int rec_rx(struct l1sched_lchan_state *lchan, const struct l1sched_burst_ind *bi)
{
	rec_chan = lchan->type;
	rec_bid = bi->bid;
	if (rec_on && rec_n < 512) {
		rec_list[rec_n].fn = bi->fn;
		rec_list[rec_n].chan = lchan->type;
		rec_list[rec_n].bid = bi->bid;
		rec_n++;
	}
	return 0;
}

struct l1sched_lchan_desc l1sched_lchan_desc_rw[_L1SCHED_CHAN_MAX];
#define l1sched_lchan_desc l1sched_lchan_desc_rw

struct l1sched_lchan_state *l1sched_find_lchan_by_type(struct l1sched_ts *ts, enum l1sched_lchan_type type)
{
	struct l1sched_lchan_state *l = &lchans[type];
	if (!l->tx_prims.next)
		INIT_LLIST_HEAD(&l->tx_prims);
	l->type = type;
	l->active = true;
	l->ts = ts;
	return l;
}

#define l1sched_prim_type_from_msgb(msg) (-1)
#define l1sched_a5_burst_enc(lchan, br) ((void) 0)
#define l1sched_a5_burst_dec(lchan, bi) ((void) 0)
#ifndef WITH_SUBST_FRAME_LOSS
static int subst_frame_loss(struct l1sched_lchan_state *lchan, l1sched_lchan_rx_func *handler, uint32_t fn) { return 0; }
#endif
#endif

#ifdef LOOKUP_PART_2
#undef l1sched_lchan_desc
#define HYPERFRAME 2715648u

static void probe(struct l1sched_state *sched, int config, int tn, uint32_t fn)
{
	struct l1sched_burst_req br;
	static struct l1sched_burst_ind bi;
	int rc;
	memset(&br, 0, sizeof(br));
	br.fn = fn;
	br.tn = tn;
	rec_chan = rec_bid = -1;
	l1sched_pull_burst(sched, &br);
	printf("u %d %d %u %d %d\n", config, tn, fn, rec_chan, rec_bid);
	memset(&bi, 0, sizeof(bi));
	bi.fn = fn;
	bi.tn = tn;
	rec_chan = rec_bid = -1;
	{
		/* every probe is a first burst: no history of processed frames (the lost-frame cases are separate) */
		int t;
		for (t = 0; t < _L1SCHED_CHAN_MAX; t++)
			lchans[t].tdma.num_proc = 0;
	}
	rc = l1sched_handle_rx_burst(sched, &bi);
	printf("d %d %d %u %d %d %d\n", config, tn, fn, rec_chan, rec_bid, rc);
}

int main(void)
{
	int config, tn, i;
	static struct l1sched_state sched;
	static struct l1sched_ts ts;
	for (i = 0; i < _L1SCHED_CHAN_MAX; i++) {
		l1sched_lchan_desc_rw[i].name = "x";
		l1sched_lchan_desc_rw[i].tx_fn = rec_tx;
		l1sched_lchan_desc_rw[i].rx_fn = rec_rx;
	}
	sched.log_prefix = "";
	for (config = 0; config < _GSM_PCHAN_MAX; config++) {
		for (tn = 0; tn < 8; tn++) {
			const struct l1sched_tdma_multiframe *mf = l1sched_mframe_layout(config, tn);
			uint32_t fn, k;
			if (!mf || mf->period == 0 || mf->frames == NULL)
				continue;
			memset(&ts, 0, sizeof(ts));
			ts.index = tn;
			ts.mf_layout = mf;
			ts.sched = &sched;
			memset(sched.ts, 0, sizeof(sched.ts));
			sched.ts[tn] = &ts;
			for (fn = 0; fn < 2 * mf->period; fn++)
				probe(&sched, config, tn, fn);
			for (k = 250; k < 262; k++)
				probe(&sched, config, tn, k);
			for (k = 65530; k < 65542; k++)
				probe(&sched, config, tn, k);
			for (fn = HYPERFRAME - 2 * mf->period; fn < HYPERFRAME; fn++)
				probe(&sched, config, tn, fn);
#ifdef WITH_SUBST_FRAME_LOSS
			/* lost frames: a burst at fn1, the next burst of the same channel some occurrences later;
			 * "l <config> <tn> <fn1> <fn2> <rc> : <fn>/<chan>/<bid> ..." lists every handler call of the second burst */
			{
				uint32_t bases[2] = { 3 * mf->period, HYPERFRAME - mf->period };
				int b;
				for (b = 0; b < 2; b++)
				for (k = 0; k < mf->period; k++) {
					uint32_t fn1 = (bases[b] + k) % HYPERFRAME, g;
					int chan = mf->frames[fn1 % mf->period].dl_chan, occ = 0;
					for (g = 1; g <= mf->period && occ < 3; g++) {
						uint32_t fn2 = (fn1 + g) % HYPERFRAME;
						static struct l1sched_burst_ind bi;
						int rc, j;
						if (mf->frames[fn2 % mf->period].dl_chan != chan)
							continue;
						occ++;
						if (occ == 1)
							continue;	/* the very next occurrence: nothing lost */
						memset(&lchans[chan], 0, sizeof(lchans[chan]));
						memset(&bi, 0, sizeof(bi));
						bi.fn = fn1; bi.tn = tn;
						l1sched_handle_rx_burst(&sched, &bi);
						memset(&bi, 0, sizeof(bi));
						bi.fn = fn2; bi.tn = tn;
						rec_on = 1; rec_n = 0;
						rc = l1sched_handle_rx_burst(&sched, &bi);
						rec_on = 0;
						printf("l %d %d %u %u %d :", config, tn, fn1, fn2, rc);
						for (j = 0; j < rec_n; j++)
							printf(" %u/%d/%d", rec_list[j].fn, rec_list[j].chan, rec_list[j].bid);
						printf("\n");
					}
				}
			}
#endif
		}
	}
	return 0;
}
#endif

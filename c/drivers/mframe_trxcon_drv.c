/* mframe_trxcon_drv - real trxcon sched_mframe.c under ASan: every
 * (channel combination, timeslot) lookup, and frames[fn % period] read for
 * every FN of a full 51x26x8 cycle (a table shorter than its period is a
 * global-buffer-overflow report).
 * output: "L <config> <tn> <chan_config> <period> <slotmask> <lchan_mask hex> <name>" or "L <config> <tn> NULL",
 *         then "f <config> <tn> <idx> <dl_chan> <dl_bid> <ul_chan> <ul_bid>" for one period
 */
#include <stdio.h>
#include <stdlib.h>
#include <stdint.h>
#include <inttypes.h>

#include <osmocom/bb/l1sched/l1sched.h>

int main(void)
{
	int config, tn;
	unsigned long reads = 0, sum = 0;
	for (config = 0; config < _GSM_PCHAN_MAX; config++) {
		for (tn = 0; tn < 8; tn++) {
			const struct l1sched_tdma_multiframe *mf = l1sched_mframe_layout(config, tn);
			uint32_t fn;
			if (!mf) {
				printf("L %d %d NULL\n", config, tn);
				continue;
			}
			printf("L %d %d %d %u %u %" PRIx64 " %s\n", config, tn, mf->chan_config,
				mf->period, mf->slotmask, (uint64_t)mf->lchan_mask, mf->name ? mf->name : "?");
			if (mf->period == 0 || mf->frames == NULL)
				continue;
			for (fn = 0; fn < 51 * 26 * 8; fn++) {
				const struct l1sched_tdma_frame *fr = &mf->frames[fn % mf->period];
				sum += fr->dl_chan + fr->dl_bid + fr->ul_chan + fr->ul_bid;
				reads++;
				if (fn < mf->period)
					printf("f %d %d %u %d %u %d %u\n", config, tn, fn,
						fr->dl_chan, fr->dl_bid, fr->ul_chan, fr->ul_bid);
			}
		}
	}
	printf("R %lu %lu %d\n", reads, sum, _L1SCHED_CHAN_MAX);
	return 0;
}

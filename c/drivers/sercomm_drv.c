/* sercomm_drv - op-script driver for the real firmware comm/sercomm.c
 * (HOST_BUILD variant) with the real libosmocore msgb.c / talloc.c.
 *
 * argv: DLCIs to register a recording handler for (decimal).
 * ops:
 *   N <idx>            print "CASE <idx>"
 *   S <dlci> <hex|->   queue one message (sercomm_sendmsg)
 *   P <n>              pull up to n octets, each one is looped into sercomm_drv_rx_char()
 *                      -> "D <dlci> <hex|->" per delivery (as it happens), then "p <hex of pulled octets|->"
 *   U <n>              pull up to n octets without looping them back -> "p <hex>"
 *   G <hex>            feed octets from outside into sercomm_drv_rx_char() -> "D ..." lines, then "g <n accepted>"
 */
#include <stdio.h>
#include <stdlib.h>
#include <string.h>
#include <stdint.h>

#include <osmocom/core/msgb.h>
#ifdef TARGET_VARIANT
/* sercomm.c built without HOST_BUILD (256-octet receive buffer, IRQ lock macros stubbed) */
#include <comm/sercomm.h>
#include <uart.h>
static unsigned long uart_irq_enables;
void uart_irq_enable(uint8_t uart, enum uart_irq irq, int on) { uart_irq_enables++; }
#else
#include <sercomm.h>
#endif

void osmo_panic(const char *fmt, ...)
{
	fprintf(stderr, "OSMO_PANIC: %s\n", fmt);
	fflush(NULL);
	abort();
}

static char line[1 << 17];
static uint8_t buf[1 << 16];

static void put_hex(const uint8_t *d, unsigned n)
{
	unsigned i;
	if (n == 0) { putchar('-'); return; }
	for (i = 0; i < n; i++)
		printf("%02x", d[i]);
}

static void rx_cb(uint8_t dlci, struct msgb *msg)
{
	printf("D %u ", dlci);
	put_hex(msg->data, msgb_length(msg));
	putchar('\n');
	msgb_free(msg);
}

static int unhex(const char *s, uint8_t *out)
{
	int n = 0;
	if (s[0] == '-') return 0;
	while (s[0] && s[1] && s[0] != '\n') {
		unsigned v;
		sscanf(s, "%2x", &v);
		out[n++] = v;
		s += 2;
	}
	return n;
}

int main(int argc, char **argv)
{
	int i;
	sercomm_init();
	for (i = 1; i < argc; i++)
		sercomm_register_rx_cb(atoi(argv[i]), rx_cb);
	/* the handler table has _SC_DLCI_MAX entries: registering beyond it must be refused (and must not write anywhere) */
	for (i = _SC_DLCI_MAX; i < 256; i += (i < _SC_DLCI_MAX + 2) ? 1 : 63) {
		if (sercomm_register_rx_cb(i, rx_cb) >= 0) {
			fprintf(stderr, "SUMMARY: sercomm_register_rx_cb() accepted DLCI %d, the handler table has %d entries\n", i, _SC_DLCI_MAX);
			fflush(NULL);
			abort();
		}
	}
	while (fgets(line, sizeof(line), stdin)) {
		switch (line[0]) {
		case 'N':
			printf("CASE %d\n", atoi(line + 1));
			break;
		case 'S': {
			int dlci, off = 0, n;
			struct msgb *msg;
			sscanf(line + 1, "%d %n", &dlci, &off);
			n = unhex(line + 1 + off, buf);
			msg = sercomm_alloc_msgb(n ? n : 1); /* len 0 would trip the header's VLA "static assert" */
			if (n)
				memcpy(msgb_put(msg, n), buf, n);
			sercomm_sendmsg(dlci, msg);
			break;
		}
		case 'P':
		case 'U': {
			int n = atoi(line + 1), k = 0;
			uint8_t ch;
			while (k < n && sercomm_drv_pull(&ch)) {
				buf[k++] = ch;
				if (line[0] == 'P')
					sercomm_drv_rx_char(ch);
			}
			printf("p ");
			put_hex(buf, k);
			putchar('\n');
			break;
		}
		case 'G': {
			int n = unhex(line + 2, buf), acc = 0;
			for (i = 0; i < n; i++)
				acc += sercomm_drv_rx_char(buf[i]);
			printf("g %d\n", acc);
			break;
		}
		}
		fflush(stdout);
	}
	return 0;
}

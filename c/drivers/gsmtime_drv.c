/* gsmtime_drv - real libosmocore gsm_fn2gsmtime()/gsm_gsmtime2fn() and the real
 * firmware l1s_time_inc() (sync.c) against a division-free counter walk.
 *
 * stdin lines:
 *   W                 walk the whole hyperframe with delta 1
 *   D <stride> <off>  deltas {0,2..60,102,1325,1326,1327,2652,84864,2715647} at every fn = off (mod stride),
 *                     plus every fn within +-60 of a multiple of 26*51 and of the wrap
 *   T <path>          write the table produced by the real gsm_fn2gsmtime (4 octets/fn:
 *                     t1 hi, t1 lo, t2, t3) for the Python comparison
 * output: "M <kind> ..." per mismatch (first 50), "S ..." statistics per command
 */
#include <stdio.h>
#include <stdlib.h>
#include <string.h>
#include <stdint.h>

#include <osmocom/gsm/gsm_utils.h>
#include <layer1/sync.h>

#define HYPER 2715648u

struct ref { uint16_t t1; uint8_t t2, t3, tc; };
static struct ref *tab;
static unsigned long carries26, carries51, carries1326, wraps;
static int mism;

static void build_ref(void)
{
	/* counter walk: increments and wraps only, no division or modulo */
	uint32_t fn;
	struct ref r = { 0, 0, 0, 0 };
	uint32_t sf = 0; /* position inside the superframe, for T1 */
	tab = calloc(HYPER, sizeof(*tab));
	for (fn = 0; fn < HYPER; fn++) {
		tab[fn] = r;
		if (++r.t2 == 26) { r.t2 = 0; carries26++; }
		if (++r.t3 == 51) {
			r.t3 = 0; carries51++;
			if (++r.tc == 8) r.tc = 0;
		}
		if (++sf == 26 * 51) {
			sf = 0; carries1326++;
			if (++r.t1 == 2048) { r.t1 = 0; wraps++; }
		}
	}
}

static int same(const struct gsm_time *t, uint32_t fn)
{
	const struct ref *r = &tab[fn];
	return t->fn == fn && t->t1 == r->t1 && t->t2 == r->t2 && t->t3 == r->t3 && t->tc == r->tc;
}

static void load(struct gsm_time *t, uint32_t fn)
{
	memset(t, 0, sizeof(*t));
	t->fn = fn; t->t1 = tab[fn].t1; t->t2 = tab[fn].t2; t->t3 = tab[fn].t3; t->tc = tab[fn].tc;
}

static void report(const char *kind, uint32_t fn, uint32_t d, const struct gsm_time *t, uint32_t exp_fn)
{
	if (mism++ < 50)
		printf("M %s fn=%u delta=%u got=%u/%u/%u/%u/%u exp=%u/%u/%u/%u/%u\n", kind, fn, d,
			(unsigned)t->fn, t->t1, t->t2, t->t3, t->tc,
			exp_fn, tab[exp_fn].t1, tab[exp_fn].t2, tab[exp_fn].t3, tab[exp_fn].tc);
}

static const uint32_t big_deltas[] = { 0, 102, 1325, 1326, 1327, 2652, 84864, 2715647 };

static unsigned long deltas_at(uint32_t fn)
{
	unsigned long n = 0;
	uint32_t d;
	unsigned i;
	struct gsm_time t;
	for (d = 2; d <= 60; d++) {
		load(&t, fn);
		l1s_time_inc(&t, d);
		if (!same(&t, (fn + d) % HYPER)) report("inc", fn, d, &t, (fn + d) % HYPER);
		n++;
	}
	for (i = 0; i < sizeof(big_deltas) / sizeof(big_deltas[0]); i++) {
		d = big_deltas[i];
		load(&t, fn);
		l1s_time_inc(&t, d);
		if (!same(&t, (uint32_t)(((uint64_t)fn + d) % HYPER))) report("inc", fn, d, &t, (uint32_t)(((uint64_t)fn + d) % HYPER));
		n++;
	}
	return n;
}

int main(void)
{
	char line[512];
	build_ref();
	while (fgets(line, sizeof(line), stdin)) {
		if (line[0] == 'W') {
			uint32_t fn;
			struct gsm_time t, run;
			unsigned long n = 0;
			load(&run, 0);
			for (fn = 0; fn < HYPER; fn++) {
				uint32_t nx = fn + 1 == HYPER ? 0 : fn + 1;
				memset(&t, 0xAA, sizeof(t));
				gsm_fn2gsmtime(&t, fn);
				if (!same(&t, fn)) report("fn2gsmtime", fn, 0, &t, fn);
				if (gsm_gsmtime2fn(&t) != fn) {
					if (mism++ < 50) printf("M gsmtime2fn fn=%u got=%u\n", fn, gsm_gsmtime2fn(&t));
				}
				/* the running time, stepped frame by frame like the firmware does */
				if (!same(&run, fn)) report("running", fn, 1, &run, fn);
				l1s_time_inc(&run, 1);
				/* and a fresh copy stepped once */
				load(&t, fn);
				l1s_time_inc(&t, 1);
				if (!same(&t, nx)) report("inc1", fn, 1, &t, nx);
				n++;
			}
			if (!same(&run, 0)) report("running-wrap", HYPER - 1, 1, &run, 0);
			printf("S walk fns=%lu carries26=%lu carries51=%lu carries1326=%lu wraps=%lu mismatches=%d\n",
				n, carries26, carries51, carries1326, wraps, mism);
		} else if (line[0] == 'D') {
			unsigned stride, off;
			uint32_t fn;
			unsigned long pairs = 0, fns = 0;
			if (sscanf(line + 1, "%u %u", &stride, &off) != 2) return 2;
			for (fn = 0; fn < HYPER; fn++) {
				uint32_t m = fn % 1326;
				int near = (m <= 60 || m >= 1326 - 60) && ((fn / 1326) % 64 == 0 || fn > HYPER - 2000 || fn < 2000);
				if (fn % stride == off || near) {
					pairs += deltas_at(fn);
					fns++;
				}
			}
			printf("S deltas fns=%lu pairs=%lu mismatches=%d\n", fns, pairs, mism);
		} else if (line[0] == 'T') {
			char *path = line + 2;
			FILE *f;
			uint32_t fn;
			path[strcspn(path, "\n")] = 0;
			f = fopen(path, "wb");
			if (!f) return 3;
			for (fn = 0; fn < HYPER; fn++) {
				struct gsm_time t;
				uint8_t o[4];
				gsm_fn2gsmtime(&t, fn);
				o[0] = t.t1 >> 8; o[1] = t.t1 & 0xff; o[2] = t.t2; o[3] = t.t3;
				fwrite(o, 1, 4, f);
			}
			fclose(f);
			printf("S table fns=%u\n", HYPER);
		}
		fflush(stdout);
	}
	return 0;
}

/* mframe_fw_drv - real firmware mframe_sched.c linked with a harness-provided
 * tdma_schedule_set() that records every call while mframe_schedule() runs
 * with one task enabled, for every FN of a full 51x26x8 cycle and across the
 * hyperframe wrap.
 * output: "T <task>" per task, then "s <fn_of_first_frame> <set> <p3> <frame_offset>" per call
 */
#include <stdio.h>
#include <stdlib.h>
#include <string.h>
#include <stdint.h>

#include <osmocom/gsm/gsm_utils.h>
#include <layer1/sync.h>
#include <layer1/prim.h>
#include <layer1/tdma_sched.h>
#include <layer1/mframe_sched.h>

struct l1s_state l1s;

int tdma_end_set(uint8_t p1, uint8_t p2, uint16_t p3) { return 0; }

#define SET(name) const struct tdma_sched_item name[] = { SCHED_END_FRAME(), SCHED_END_FRAME(), SCHED_END_SET() }
SET(nb_sched_set);
SET(nb_sched_set_ul);
SET(tch_sched_set);
SET(tch_a_sched_set);
SET(tch_d_sched_set);
SET(neigh_pm_sched_set);

#define HYPER 2715648u

static const char *set_name(const struct tdma_sched_item *s)
{
	if (s == nb_sched_set) return "NB_DL";
	if (s == nb_sched_set_ul) return "NB_UL";
	if (s == tch_sched_set) return "TCH";
	if (s == tch_a_sched_set) return "TCH_A";
	if (s == tch_d_sched_set) return "TCH_D";
	if (s == neigh_pm_sched_set) return "NEIGH_PM";
	return "UNKNOWN";
}

int tdma_schedule_set(uint8_t frame_offset, const struct tdma_sched_item *item_set, uint16_t p3)
{
	/* the command is issued frame_offset frames ahead, the burst is on air one
	 * frame after the DSP command: first burst = current + frame_offset + 1 */
	uint32_t first = (l1s.current_time.fn + frame_offset + 1) % HYPER;
	printf("s %u %s %u %u\n", first, set_name(item_set), p3, frame_offset);
	return 2;
}

static void run_fn(uint32_t fn)
{
	gsm_fn2gsmtime(&l1s.current_time, fn);
	mframe_schedule();
}

int main(int argc, char **argv)
{
	int task, ntasks = MF_TASK_UL_ALL_NB + 1;
	uint32_t fn;
	for (task = 0; task < ntasks; task++) {
		memset(&l1s, 0, sizeof(l1s));
		mframe_reset();
		mframe_enable(task);
		printf("T %d\n", task);
		for (fn = 0; fn < 51 * 26 * 8; fn++)
			run_fn(fn);
		printf("W %d\n", task);
		mframe_reset();
		mframe_enable(task);
		for (fn = HYPER - 320; fn != 320; fn = (fn + 1) % HYPER)
			run_fn(fn);
	}
	printf("E %d\n", ntasks);
	return 0;
}

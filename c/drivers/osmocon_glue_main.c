/* osmocon_glue_main - appended behind the text of osmocon.c's sercomm glue functions
 * (hdlc_send_to_phone, handle_sercomm_write, hdlc_tool_cb), which the harness cuts out of
 * /repo's osmocon.c and places between the two halves of this file.  Linked with the real
 * sercomm.c (HOST_BUILD), msgb.c and talloc.c.
 *
 * The "serial line" is a socketpair: what handle_sercomm_write() writes is read back here,
 * printed, and fed octet by octet into sercomm_drv_rx_char() (as osmocon's handle_buffer()
 * does); the tool side is a socketpair per DLCI served by the real hdlc_tool_cb().
 *
 * argv: DLCIs that have tool connections, as <dlci> or <dlci>:<number of connections> (decimal).
 * ops:
 *   N <idx>            "CASE <idx>"
 *   T <dlci> <hex|->   hdlc_send_to_phone(dlci, data, len)
 *   W                  handle_sercomm_write() until it disables writing; prints "w <hex written to the serial line>"
 *                      (per call), loops the octets into the receiver, then per DLCI with a tool connection
 *                      "t <dlci> <connection> <hex of what that tool connection received>" (if anything), finally "e <write enabled>"
 */
#ifdef GLUE_PART_1
#include <stdio.h>
#include <stdlib.h>
#include <string.h>
#include <stdint.h>
#include <unistd.h>
#include <errno.h>
#include <fcntl.h>
#include <arpa/inet.h>
#include <sys/socket.h>

#include <osmocom/core/msgb.h>
#include <osmocom/core/linuxlist.h>
#include <sercomm.h>

struct osmo_fd { int fd; };
static struct {
	struct osmo_fd serial_fd;
	int dump_tx, dump_rx, expect_hdlc;
} dnload;
struct tool_server { struct llist_head connections; };
struct tool_connection { struct llist_head entry; struct osmo_fd fd; };
static struct tool_server *tool_server_for_dlci[256];
static int write_enabled;
static void osmo_fd_write_enable(struct osmo_fd *f) { write_enabled = 1; }
static void osmo_fd_write_disable(struct osmo_fd *f) { write_enabled = 0; }
static void osmocon_osmo_hexdump(const uint8_t *data, unsigned int len) { }

void osmo_panic(const char *fmt, ...)
{
	fprintf(stderr, "OSMO_PANIC: %s\n", fmt);
	fflush(NULL);
	abort();
}
#endif

#ifdef GLUE_PART_2
static char line[1 << 17];
static uint8_t buf[1 << 16];
static int serial_peer = -1;
#define MAXCONN 4
static int tool_peer[256][MAXCONN];

static void put_hex(const uint8_t *d, int n)
{
	int i;
	if (n == 0) { putchar('-'); return; }
	for (i = 0; i < n; i++)
		printf("%02x", d[i]);
}

static int unhex(const char *s, uint8_t *out)
{
	int n = 0;
	if (s[0] == '-') return 0;
	while (s[0] && s[1] && s[0] != '\n') {
		unsigned v;
		sscanf(s, "%2x", &v);
		out[n++] = v;
		s += 2;
	}
	return n;
}

int main(int argc, char **argv)
{
	int i, sv[2];
	int k;
	for (i = 0; i < 256; i++)
		for (k = 0; k < MAXCONN; k++)
			tool_peer[i][k] = -1;
	socketpair(AF_UNIX, SOCK_STREAM, 0, sv);
	dnload.serial_fd.fd = sv[0];
	serial_peer = sv[1];
	fcntl(serial_peer, F_SETFL, O_NONBLOCK);
	dnload.expect_hdlc = 1;
	sercomm_init();
	for (i = 1; i < argc; i++) {
		int d = atoi(argv[i]), nconn = 1;
		const char *colon = strchr(argv[i], ':');
		struct tool_server *srv = calloc(1, sizeof(*srv));
		if (colon)
			nconn = atoi(colon + 1);
		INIT_LLIST_HEAD(&srv->connections);
		for (k = 0; k < nconn && k < MAXCONN; k++) {
			struct tool_connection *con = calloc(1, sizeof(*con));
			socketpair(AF_UNIX, SOCK_STREAM, 0, sv);
			con->fd.fd = sv[0];
			tool_peer[d][k] = sv[1];
			fcntl(sv[1], F_SETFL, O_NONBLOCK);
			llist_add_tail(&con->entry, &srv->connections);
		}
		tool_server_for_dlci[d] = srv;
		sercomm_register_rx_cb(d, hdlc_tool_cb);
	}
	while (fgets(line, sizeof(line), stdin)) {
		switch (line[0]) {
		case 'N':
			printf("CASE %d\n", atoi(line + 1));
			break;
		case 'T': {
			int dlci, off = 0, n;
			sscanf(line + 1, "%d %n", &dlci, &off);
			n = unhex(line + 1 + off, buf);
			hdlc_send_to_phone(dlci, buf, n);
			break;
		}
		case 'W': {
			int guard = 0;
			while (write_enabled && guard++ < 100000) {
				int n;
				handle_sercomm_write();
				n = read(serial_peer, buf, sizeof(buf));
				if (n < 0)
					n = 0;
				printf("w ");
				put_hex(buf, n);
				putchar('\n');
				for (i = 0; i < n; i++)
					sercomm_drv_rx_char(buf[i]);
			}
			for (i = 0; i < 256; i++) {
				for (k = 0; k < MAXCONN; k++) {
					int n;
					if (tool_peer[i][k] < 0)
						continue;
					n = read(tool_peer[i][k], buf, sizeof(buf));
					if (n > 0) {
						printf("t %d %d ", i, k);
						put_hex(buf, n);
						putchar('\n');
					}
				}
			}
			printf("e %d\n", write_enabled);
			break;
		}
		}
		fflush(stdout);
	}
	return 0;
}
#endif

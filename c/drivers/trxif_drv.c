/* trxif_drv - drives the real trxcon trx_if.c (ASan+UBSan) against the harness
 * shim of libosmocore.  The far ends of the TRXC/TRXD socketpairs belong to
 * this driver; the static socket callbacks are reached through
 * trx->trx_ofd_ctrl.cb / trx->trx_ofd_data.cb, exactly as the select loop would.
 *
 * ops (every op ends with exactly one lower-case result line):
 *   N <idx>                 close the previous instance, trx_if_open() a new one -> "CASE <idx>" , "n <ok> <ports...>"
 *   K <type> [args]         trx_if_handle_phyif_cmd(); types: RESET POWERON POWEROFF MEASURE <arfcn>
 *                           H0 <arfcn>  H1 <hsn> <maio> <n> <arfcn..>  SETSLOT <tn> <pchan>  SETTA <ta>  RAW <type int>
 *                           -> "k <rc>"
 *   c                       drain the TRXC peer socket: "C <hex>" per datagram, then "c <count>"
 *   R <hex|->               a datagram arrives on the TRXC socket; run the read callback
 *                           -> ("M <arfcn> <dbm>" if a measurement result is reported), "r <rc> <state> <terminated> <queued> <powered>"
 *   D <hex|->               a datagram arrives on the TRXD socket; run the read callback
 *                           -> ("I <fn> <tn> <rssi> <toa256> <len> <soft hex>", "T <fn> <tn>"), "d <rc>"
 *   B <fn> <tn> <pwr> <hex|->  trx_if_handle_phyif_burst_req() -> "b <rc> <hex of datagram sent|->"
 *   t                       fire the TRXC retransmission timer if pending -> "t <fired> <state> <terminated>"
 *   s                       "s <state> <terminated> <bad_transitions> <queued> <powered> <timer_active>"
 */
#include <stdio.h>
#include <stdlib.h>
#include <string.h>
#include <unistd.h>
#include <errno.h>
#include <fcntl.h>
#include <sys/socket.h>

#include <osmocom/core/fsm.h>
#include <osmocom/core/socket.h>
#include <osmocom/gsm/gsm_utils.h>
#include <osmocom/bb/trxcon/trx_if.h>

static struct trx_instance *trx;
static struct osmo_fsm_inst *fi;      /* kept by the shim after termination */
static struct osmo_fsm_inst parent_fi;
static struct osmo_fsm parent_fsm = { .name = "parent" };
static int ctrl_peer = -1, data_peer = -1;

static char line[1 << 16];
static uint8_t buf[1 << 15];

static void put_hex(const uint8_t *d, int n)
{
	int i;
	if (n <= 0) { putchar('-'); return; }
	for (i = 0; i < n; i++) printf("%02x", d[i]);
}

static int unhex(const char *s, uint8_t *out)
{
	int n = 0;
	while (*s == ' ') s++;
	if (s[0] == '-' || s[0] == '\n' || !s[0]) return 0;
	while (s[0] && s[1] && s[0] != '\n') {
		unsigned v;
		sscanf(s, "%2x", &v);
		out[n++] = v;
		s += 2;
	}
	return n;
}

/* ---- what trx_if.c hands to the upper layers ---- */
int trxcon_phyif_handle_burst_ind(void *priv, const struct trxcon_phyif_burst_ind *bi)
{
	unsigned i;
	/* copy out: reading every soft bit makes ASan check the whole claimed length */
	printf("I %u %u %d %d %u ", bi->fn, bi->tn, bi->rssi, bi->toa256, bi->burst_len);
	if (bi->burst_len == 0) putchar('-');
	for (i = 0; i < bi->burst_len; i++) printf("%02x", (uint8_t)bi->burst[i]);
	putchar('\n');
	return 0;
}

int trxcon_phyif_handle_rts_ind(void *priv, const struct trxcon_phyif_rts_ind *rts)
{
	printf("T %u %u\n", rts->fn, rts->tn);
	return 0;
}

int trxcon_phyif_handle_rsp(void *priv, const struct trxcon_phyif_rsp *rsp)
{
	if (rsp->type == TRXCON_PHYIF_CMDT_MEASURE)
		printf("M %u %d\n", rsp->param.measure.band_arfcn, rsp->param.measure.dbm);
	else
		printf("M? %d\n", rsp->type);
	return 0;
}

static int queued(void)
{
	struct llist_head *le;
	int n = 0;
	if (!trx) return -1;
	llist_for_each(le, &trx->trx_ctrl_list) n++;
	return n;
}

static void sync_term(void)
{
	/* the cleanup callback frees the instance: never touch it afterwards */
	if (fi && fi->shim_terminated)
		trx = NULL;
}

static void close_instance(void)
{
	int i;
	if (trx)
		trx_if_close(trx);
	sync_term();
	trx = NULL;
	if (fi) { free(fi); fi = NULL; }
	for (i = 0; i < shim_nsock; i++)
		close(shim_peer_fd[i]);
	shim_nsock = 0;
	ctrl_peer = data_peer = -1;
}

static void open_instance(void)
{
	struct trx_if_params p = {
		.local_host = "127.0.0.1", .remote_host = "127.0.0.1",
		.base_port = 6700, .fn_advance = 3, .instance = 0,
		.parent_fi = &parent_fi, .parent_term_event = 7, .priv = NULL,
	};
	parent_fi.fsm = &parent_fsm;
	parent_fi.name = parent_fi.id = "parent";
	trx = trx_if_open(&p);
	if (!trx) { printf("n 0\n"); return; }
	fi = trx->fi;
	ctrl_peer = shim_peer_fd[0];
	data_peer = shim_peer_fd[1];
	fcntl(ctrl_peer, F_SETFL, O_NONBLOCK);
	fcntl(data_peer, F_SETFL, O_NONBLOCK);
	fcntl(trx->trx_ofd_ctrl.fd, F_SETFL, O_NONBLOCK);
	fcntl(trx->trx_ofd_data.fd, F_SETFL, O_NONBLOCK);
	printf("n 1 %u %u %u %u\n", shim_local_port[0], shim_remote_port[0], shim_local_port[1], shim_remote_port[1]);
}

int main(void)
{
	while (fgets(line, sizeof(line), stdin)) {
		switch (line[0]) {
		case 'N':
			close_instance();
			printf("CASE %d\n", atoi(line + 1));
			open_instance();
			break;
		case 'K': {
			struct trxcon_phyif_cmd cmd;
			char type[32];
			int a = 0, b = 0, c = 0, off = 0, rc;
			uint16_t ma[128];
			memset(&cmd, 0, sizeof(cmd));
			if (!trx) { printf("k -9999\n"); break; }
			sscanf(line + 1, "%31s%n", type, &off);
			if (!strcmp(type, "RESET")) cmd.type = TRXCON_PHYIF_CMDT_RESET;
			else if (!strcmp(type, "POWERON")) cmd.type = TRXCON_PHYIF_CMDT_POWERON;
			else if (!strcmp(type, "POWEROFF")) cmd.type = TRXCON_PHYIF_CMDT_POWEROFF;
			else if (!strcmp(type, "MEASURE")) {
				sscanf(line + 1 + off, "%d", &a);
				cmd.type = TRXCON_PHYIF_CMDT_MEASURE; cmd.param.measure.band_arfcn = a;
			} else if (!strcmp(type, "H0")) {
				sscanf(line + 1 + off, "%d", &a);
				cmd.type = TRXCON_PHYIF_CMDT_SETFREQ_H0; cmd.param.setfreq_h0.band_arfcn = a;
			} else if (!strcmp(type, "H1")) {
				char *tok, *save;
				int n = 0, i;
				tok = strtok_r(line + 1 + off, " \n", &save); a = atoi(tok);
				tok = strtok_r(NULL, " \n", &save); b = atoi(tok);
				tok = strtok_r(NULL, " \n", &save); c = atoi(tok);
				for (i = 0; i < c && i < 128; i++) {
					tok = strtok_r(NULL, " \n", &save);
					ma[n++] = atoi(tok);
				}
				cmd.type = TRXCON_PHYIF_CMDT_SETFREQ_H1;
				cmd.param.setfreq_h1.hsn = a; cmd.param.setfreq_h1.maio = b;
				cmd.param.setfreq_h1.ma = ma; cmd.param.setfreq_h1.ma_len = n;
			} else if (!strcmp(type, "SETSLOT")) {
				sscanf(line + 1 + off, "%d %d", &a, &b);
				cmd.type = TRXCON_PHYIF_CMDT_SETSLOT; cmd.param.setslot.tn = a; cmd.param.setslot.pchan = b;
			} else if (!strcmp(type, "SETTA")) {
				sscanf(line + 1 + off, "%d", &a);
				cmd.type = TRXCON_PHYIF_CMDT_SETTA; cmd.param.setta.ta = a;
			} else if (!strcmp(type, "RAW")) {
				sscanf(line + 1 + off, "%d", &a);
				cmd.type = a;
			}
			rc = trx_if_handle_phyif_cmd(trx, &cmd);
			sync_term();
			printf("k %d\n", rc);
			break;
		}
		case 'c': {
			int n, cnt = 0;
			while (ctrl_peer >= 0 && (n = recv(ctrl_peer, buf, sizeof(buf), 0)) >= 0) {
				printf("C "); put_hex(buf, n); putchar('\n');
				cnt++;
			}
			printf("c %d\n", cnt);
			break;
		}
		case 'R': {
			int n = unhex(line + 1, buf), rc;
			if (!trx) { printf("r -9999 -1 1 -1 0\n"); break; }
			send(ctrl_peer, buf, n, 0);
			rc = trx->trx_ofd_ctrl.cb(&trx->trx_ofd_ctrl, OSMO_FD_READ);
			sync_term();
			printf("r %d %d %d %d %d\n", rc, fi->state, fi->shim_terminated, queued(), trx ? trx->powered_up : 0);
			break;
		}
		case 'D': {
			int n = unhex(line + 1, buf), rc;
			if (!trx) { printf("d -9999\n"); break; }
			send(data_peer, buf, n, 0);
			rc = trx->trx_ofd_data.cb(&trx->trx_ofd_data, OSMO_FD_READ);
			sync_term();
			printf("d %d\n", rc);
			break;
		}
		case 'B': {
			struct trxcon_phyif_burst_req br;
			unsigned fn, tn, pwr; int off = 0, n, rc, got;
			uint8_t *bits;
			if (!trx) { printf("b -9999 -\n"); break; }
			sscanf(line + 1, "%u %u %u%n", &fn, &tn, &pwr, &off);
			n = unhex(line + 1 + off, buf);
			bits = malloc(n ? n : 1);   /* exact-size object */
			memcpy(bits, buf, n);
			br.fn = fn; br.tn = tn; br.pwr = pwr; br.burst = bits; br.burst_len = n;
			rc = trx_if_handle_phyif_burst_req(trx, &br);
			free(bits);
			got = recv(data_peer, buf, sizeof(buf), 0);
			printf("b %d ", rc); put_hex(buf, got); putchar('\n');
			break;
		}
		case 't': {
			int fired = 0;
			if (trx && trx->trx_ctrl_timer.active && trx->trx_ctrl_timer.cb) {
				trx->trx_ctrl_timer.active = 0;
				trx->trx_ctrl_timer.cb(trx->trx_ctrl_timer.data);
				fired = 1;
				sync_term();
			}
			printf("t %d %d %d\n", fired, fi ? (int)fi->state : -1, fi ? fi->shim_terminated : 1);
			break;
		}
		case 's':
			printf("s %d %d %d %d %d %d\n", fi ? (int)fi->state : -1, fi ? fi->shim_terminated : 1,
				fi ? fi->shim_bad_transitions : 0, queued(), trx ? trx->powered_up : 0,
				trx ? trx->trx_ctrl_timer.active : 0);
			break;
		}
		fflush(stdout);
	}
	close_instance();
	return 0;
}

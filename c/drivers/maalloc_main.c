/* maalloc driver main - appended to a generated TU that contains the text of
 * gsm48_decode_mobile_alloc() as it stands in the working tree.
 *
 * ops:  N <idx>
 *       C <si4> <len> <ma hex|-> <preset hopp count> <arfcns...> | <n_ca> <arfcns...>
 *         line format: C si4 len mahex nca a1..an npre p1..pn nother a1 m1 .. an mn
 *         (other: neighbour-cell / report flags, mask bits 0xfc, on any channel)
 * out:  R <rc> <hopp_len|-> <hopping...>     (hopp_len '-' when left untouched)
 *       H <arfcns carrying FREQ_TYPE_HOPP afterwards...>
 *       X <number of channels whose flags other than FREQ_TYPE_HOPP changed>
 */
#include <stdio.h>
#include <stdlib.h>
#include <string.h>

static char line[1 << 16];

int main(void)
{
	while (fgets(line, sizeof(line), stdin)) {
		if (line[0] == 'N') {
			printf("CASE %d\n", atoi(line + 1));
		} else if (line[0] == 'C') {
			char *tok, *save;
			int si4, len, nca, npre, nother, i, rc, changed = 0;
			uint8_t before[1024];
			char *mahex;
			struct gsm_sysinfo_freq *freq = calloc(1024, sizeof(*freq));
			uint8_t *ma;
			uint16_t *hopping = malloc(64 * sizeof(uint16_t));
			uint8_t *hopp_len = malloc(1);
			tok = strtok_r(line + 1, " \n", &save); si4 = atoi(tok);
			tok = strtok_r(NULL, " \n", &save); len = atoi(tok);
			mahex = strtok_r(NULL, " \n", &save);
			/* exact-size heap object: any access outside the IE is an ASan report */
			ma = malloc(len);
			for (i = 0; i < len && mahex[0] != '-'; i++) {
				unsigned v; sscanf(mahex + 2 * i, "%2x", &v); ma[i] = v;
			}
			tok = strtok_r(NULL, " \n", &save); nca = atoi(tok);
			for (i = 0; i < nca; i++) {
				tok = strtok_r(NULL, " \n", &save);
				freq[atoi(tok)].mask |= FREQ_TYPE_SERV;
			}
			tok = strtok_r(NULL, " \n", &save); npre = atoi(tok);
			for (i = 0; i < npre; i++) {
				tok = strtok_r(NULL, " \n", &save);
				freq[atoi(tok)].mask |= FREQ_TYPE_HOPP;
			}
			tok = strtok_r(NULL, " \n", &save); nother = tok ? atoi(tok) : 0;
			for (i = 0; i < nother; i++) {
				int a, m;
				tok = strtok_r(NULL, " \n", &save); a = atoi(tok);
				tok = strtok_r(NULL, " \n", &save); m = atoi(tok);
				freq[a].mask |= m & 0xfc;
			}
			for (i = 0; i < 1024; i++) before[i] = freq[i].mask;
			for (i = 0; i < 64; i++) hopping[i] = 0xffff;
			*hopp_len = 0xaa;
			rc = gsm48_decode_mobile_alloc(freq, ma, len, hopping, hopp_len, si4);
			printf("R %d ", rc);
			if (*hopp_len == 0xaa) {
				int touched = 0;
				for (i = 0; i < 64; i++) touched += hopping[i] != 0xffff;
				printf("- %d\n", touched);
			} else {
				printf("%u", *hopp_len);
				for (i = 0; i < *hopp_len && i < 64; i++) printf(" %u", hopping[i]);
				printf("\n");
			}
			printf("H");
			for (i = 0; i < 1024; i++)
				if (freq[i].mask & FREQ_TYPE_HOPP) printf(" %d", i);
			printf("\n");
			for (i = 0; i < 1024; i++)
				changed += (freq[i].mask & ~FREQ_TYPE_HOPP) != (before[i] & ~FREQ_TYPE_HOPP);
			printf("X %d\n", changed);
			free(freq); free(ma); free(hopping); free(hopp_len);
		}
		fflush(stdout);
	}
	return 0;
}

/* sercomm_irq_drv - interrupt-injection driver for the real firmware comm/sercomm.c
 * (target variant: interrupt lock, 256-octet receive buffer), the firmware's static msgb
 * pool (comm/msgb.c) and the real libosmocore msgb.c.
 *
 * On the phone sercomm_drv_pull() and sercomm_drv_rx_char() run in the UART interrupt,
 * sercomm_sendmsg() and message allocation in the main context.  Here the three
 * translation units are built with -fsanitize-coverage=trace-pc-guard,trace-loads,
 * trace-stores: every basic block and every memory access of theirs calls back into this
 * driver, which is where a simulated UART interrupt may preempt the main context -
 * unless interrupts are masked (local_firq_save() .. local_irq_restore(), tracked by the
 * stub <asm/system.h>) or an interrupt is already being served.
 *
 * argv: DLCIs to register a recording handler for (decimal).
 * ops (main context):
 *   N <idx>                    print "CASE <idx>"
 *   I <gap>:<T|R><n> ...       arm the interrupt plan: the first interrupt fires at the <gap>-th
 *                              unmasked callback from now, each following one <gap> callbacks after
 *                              the previous; T<n> = Tx-empty interrupt with room for n octets in the
 *                              FIFO, R<n> = Rx interrupt delivering up to n inbound octets
 *   F <hex>                    append octets to the inbound line (what the host sends)
 *   Q <gap>:<dlci>:<hex> ...   messages sent with sercomm_sendmsg() from FIQ level while a UART interrupt is being served
 *                              ("q <index> <callback number>" is printed when one is sent)
 *   S <dlci> <hex|->           sercomm_alloc_msgb + sercomm_sendmsg in the main context
 *   X <n> / Y <n>              a Tx / Rx interrupt between two main-context operations
 *   Z                          serve interrupts until everything is drained; prints
 *                              "W <hex of all octets put on the wire>" and
 *                              "e <unmasked callbacks> <masked callbacks> <interrupts fired inside main-context code>"
 * Deliveries are printed as they happen: "D <dlci> <hex|->"; every injected interrupt prints
 * "i <T|R> <callback number> <code offset>".
 */
#include <stdio.h>
#include <stdlib.h>
#include <string.h>
#include <stdint.h>

#include <osmocom/core/msgb.h>
#include <comm/sercomm.h>
#include <uart.h>

volatile int verif_irq_masked, verif_fiq_masked;
unsigned long verif_lock_sections;

static int in_isr, tx_irq_enabled, armed;
static unsigned long ev, ev_masked, next_fire, fired;

/* FIQ level: the frame interrupt of layer 1 may preempt the UART interrupt handler (only IRQs are masked while
 * an IRQ is served) and sends messages with sercomm_sendmsg() from there */
struct fiq_item { unsigned long gap; int dlci; int len; uint8_t data[64]; };
static struct fiq_item fiq_plan[256];
static int fiq_n, fiq_pos;
static unsigned long fiq_ev, fiq_next, fiq_fired;

struct plan_item { unsigned long gap; char kind; int n; };
static struct plan_item plan[4096];
static int plan_n, plan_pos;

static uint8_t wire[1 << 20];
static unsigned wire_n;
static uint8_t inbound[1 << 20];
static unsigned in_n, in_pos;

static char line[1 << 17];
static uint8_t buf[1 << 16];

void osmo_panic(const char *fmt, ...)
{
	printf("PANIC %s\n", fmt);
	fflush(NULL);
	exit(3);
}

void cons_puts(const char *s)
{
	/* comm/msgb.c: "unable to allocate msgb" is followed by while (1) */
	printf("PANIC %s", s);
	fflush(NULL);
	exit(3);
}

void uart_irq_enable(uint8_t uart, enum uart_irq irq, int on)
{
	if (irq == UART_IRQ_TX_EMPTY)
		tx_irq_enabled = on;
}

/* what calypso/uart.c does on IIR_INT_TYPE_THR / IIR_INT_TYPE_RHR */
static void isr(char kind, int n)
{
	int k, saved = verif_irq_masked;
	uint8_t ch;

	int saved_f = verif_fiq_masked;
	in_isr = 1;
	verif_irq_masked = 1;	/* the CPU masks IRQs while it serves one - FIQs stay enabled */
	verif_fiq_masked = 0;
	if (kind == 'T') {
		for (k = 0; tx_irq_enabled && k < n; k++) {
			if (!sercomm_drv_pull(&ch)) {
				uart_irq_enable(0, UART_IRQ_TX_EMPTY, 0);
				break;
			}
			wire[wire_n++] = ch;
		}
	} else {
		for (k = 0; k < n && in_pos < in_n; k++)
			sercomm_drv_rx_char(inbound[in_pos++]);
	}
	verif_irq_masked = saved;
	verif_fiq_masked = saved_f;
	in_isr = 0;
}

static void fiq(void)
{
	struct fiq_item *it = &fiq_plan[fiq_pos++];
	int si = verif_irq_masked, sf = verif_fiq_masked;
	struct msgb *msg;
	in_isr = 2;
	verif_irq_masked = verif_fiq_masked = 1;
	printf("q %d %lu\n", fiq_pos - 1, fiq_ev);
	msg = sercomm_alloc_msgb(it->len ? it->len : 1);
	if (it->len)
		memcpy(msgb_put(msg, it->len), it->data, it->len);
	sercomm_sendmsg(it->dlci, msg);
	fiq_fired++;
	verif_irq_masked = si;
	verif_fiq_masked = sf;
	in_isr = 1;
	if (fiq_pos < fiq_n)
		fiq_next = fiq_ev + fiq_plan[fiq_pos].gap;
}

static inline void hook(void *pc)
{
	if (in_isr == 2)
		return;
	if (in_isr == 1) {
		/* inside the UART interrupt handler: a FIQ may come in unless both are masked */
		if (verif_fiq_masked)
			return;
		fiq_ev++;
		if (fiq_pos < fiq_n && fiq_ev == fiq_next)
			fiq();
		return;
	}
	if (verif_irq_masked) {
		ev_masked++;
		return;
	}
	ev++;
	if (armed && plan_pos < plan_n && ev == next_fire) {
		struct plan_item *it = &plan[plan_pos++];
		printf("i %c %lu %lx\n", it->kind, ev, (unsigned long) ((uintptr_t) pc - (uintptr_t) &sercomm_init));
		fired++;
		isr(it->kind, it->n);
		if (plan_pos < plan_n)
			next_fire = ev + plan[plan_pos].gap;
	}
}

void __sanitizer_cov_trace_pc_guard_init(uint32_t *start, uint32_t *stop) { }
void __sanitizer_cov_trace_pc_guard(uint32_t *guard) { hook(__builtin_return_address(0)); }
void __sanitizer_cov_load1(uint8_t *a) { hook(__builtin_return_address(0)); }
void __sanitizer_cov_load2(uint16_t *a) { hook(__builtin_return_address(0)); }
void __sanitizer_cov_load4(uint32_t *a) { hook(__builtin_return_address(0)); }
void __sanitizer_cov_load8(uint64_t *a) { hook(__builtin_return_address(0)); }
void __sanitizer_cov_load16(void *a) { hook(__builtin_return_address(0)); }
void __sanitizer_cov_store1(uint8_t *a) { hook(__builtin_return_address(0)); }
void __sanitizer_cov_store2(uint16_t *a) { hook(__builtin_return_address(0)); }
void __sanitizer_cov_store4(uint32_t *a) { hook(__builtin_return_address(0)); }
void __sanitizer_cov_store8(uint64_t *a) { hook(__builtin_return_address(0)); }
void __sanitizer_cov_store16(void *a) { hook(__builtin_return_address(0)); }

static void put_hex(const uint8_t *d, unsigned n)
{
	unsigned i;
	if (n == 0) { putchar('-'); return; }
	for (i = 0; i < n; i++)
		printf("%02x", d[i]);
}

static void rx_cb(uint8_t dlci, struct msgb *msg)
{
	unsigned n = msgb_length(msg);	/* (instrumented code: an interrupt may be served inside; keep the line in one piece) */
	printf("D %u ", dlci);
	put_hex(msg->data, n);
	putchar('\n');
	msgb_free(msg);
}

static int unhex(const char *s, uint8_t *out)
{
	int n = 0;
	if (s[0] == '-') return 0;
	while (s[0] && s[1] && s[0] != '\n') {
		unsigned v;
		sscanf(s, "%2x", &v);
		out[n++] = v;
		s += 2;
	}
	return n;
}

int main(int argc, char **argv)
{
	int i;
	sercomm_init();
	for (i = 1; i < argc; i++)
		sercomm_register_rx_cb(atoi(argv[i]), rx_cb);
	while (fgets(line, sizeof(line), stdin)) {
		switch (line[0]) {
		case 'N':
			printf("CASE %d\n", atoi(line + 1));
			break;
		case 'I': {
			char *p = line + 1;
			plan_n = plan_pos = 0;
			while (*p) {
				unsigned long gap; char kind; int n, off = 0;
				if (sscanf(p, " %lu:%c%d%n", &gap, &kind, &n, &off) < 3 || plan_n >= 4096)
					break;
				plan[plan_n].gap = gap; plan[plan_n].kind = kind; plan[plan_n].n = n;
				plan_n++;
				p += off;
			}
			ev = ev_masked = fired = 0;
			armed = 1;
			next_fire = plan_n ? plan[0].gap : 0;
			break;
		}
		case 'F':
			in_n += unhex(line + 2, inbound + in_n);
			break;
		case 'Q': {
			/* Q <gap>:<dlci>:<hex|-> ...  messages sent from FIQ level, the k-th one at the gap-th unmasked callback
			 * inside UART interrupt handlers after the previous one */
			char *p = line + 1;
			fiq_n = fiq_pos = 0;
			fiq_ev = fiq_fired = 0;
			while (*p && fiq_n < 256) {
				unsigned long gap; int dlci, off = 0; char hex[140];
				if (sscanf(p, " %lu:%d:%139s%n", &gap, &dlci, hex, &off) < 3)
					break;
				fiq_plan[fiq_n].gap = gap; fiq_plan[fiq_n].dlci = dlci;
				fiq_plan[fiq_n].len = unhex(hex, fiq_plan[fiq_n].data);
				fiq_n++;
				p += off;
			}
			fiq_next = fiq_n ? fiq_plan[0].gap : 0;
			break;
		}
		case 'S': {
			int dlci, off = 0, n;
			struct msgb *msg;
			sscanf(line + 1, "%d %n", &dlci, &off);
			n = unhex(line + 1 + off, buf);
			msg = sercomm_alloc_msgb(n ? n : 1);
			if (n)
				memcpy(msgb_put(msg, n), buf, n);
			sercomm_sendmsg(dlci, msg);
			break;
		}
		case 'X':
			isr('T', atoi(line + 1));
			break;
		case 'Y':
			isr('R', atoi(line + 1));
			break;
		case 'Z': {
			int guard = 0;
			armed = 0;
			if (verif_irq_masked || verif_fiq_masked) {
				/* the main context has returned from sercomm with interrupts still masked: on the phone no UART
				 * interrupt would ever be served again */
				printf("STUCK %d %d\n", verif_irq_masked, verif_fiq_masked);
				verif_irq_masked = verif_fiq_masked = 0;
			}
			/* the line goes quiet: serve what is pending (echoed messages re-enable the Tx interrupt) */
			while ((tx_irq_enabled || in_pos < in_n) && guard++ < 100000) {
				isr('R', 64);
				isr('T', 64);
			}
			printf("W ");
			put_hex(wire, wire_n);
			printf("\ne %lu %lu %lu %lu %lu\n", ev, ev_masked, fired, fiq_ev, fiq_fired);
			fiq_n = fiq_pos = 0;
			wire_n = 0;
			in_n = in_pos = 0;
			break;
		}
		}
		fflush(stdout);
	}
	return 0;
}

/* hop_drv - drives the real firmware rfch.c (rfch_get_params with a hopping
 * dedicated channel configured in l1s.dedicated) and the real libosmocore
 * gsm_fn2gsmtime().  Harness code: only the enumeration and I/O live here.
 *
 * stdin lines:
 *   E <n_lo> <n_hi> <variant>  enumerate the reduced space for N in n_lo..n_hi,
 *                              write one octet (MAI) per point to stdout
 *   P <hsn> <maio> <n> <fn> [<flags>]  one point, prints "R <arfcn>\n"; flags are or-ed into every
 *                              entry of the mobile allocation (band / uplink bits of the firmware's ARFCN numbering)
 */
#include <stdio.h>
#include <stdlib.h>
#include <string.h>
#include <stdint.h>

#include <osmocom/gsm/gsm_utils.h>
#include <layer1/sync.h>
#include <layer1/rfch.h>

struct l1s_state l1s;

#define MA_BASE 512

static unsigned ma_flags;

static void setup(uint8_t hsn, uint8_t maio, uint8_t n)
{
	int i;
	memset(&l1s.dedicated, 0, sizeof(l1s.dedicated));
	l1s.dedicated.type = GSM_DCHAN_SDCCH_8;
	l1s.dedicated.h = 1;
	l1s.dedicated.h1.hsn = hsn;
	l1s.dedicated.h1.maio = maio;
	l1s.dedicated.h1.n = n;
	for (i = 0; i < n; i++)
		l1s.dedicated.h1.ma[i] = (MA_BASE + i) | ma_flags;
}

static uint16_t point(uint8_t hsn, uint8_t maio, uint8_t n, uint32_t fn)
{
	struct gsm_time t;
	uint16_t arfcn = 0xffff;
	setup(hsn, maio, n);
	gsm_fn2gsmtime(&t, fn);
	rfch_get_params(&t, &arfcn, NULL, NULL);
	return arfcn;
}

int main(void)
{
	char line[256];
	while (fgets(line, sizeof(line), stdin)) {
		if (line[0] == 'E') {
			int nlo, nhi, v, n, x, t2, t3;
			if (sscanf(line + 1, "%d %d %d", &nlo, &nhi, &v) != 3)
				return 2;
			for (n = nlo; n <= nhi; n++)
			for (x = 0; x < 64; x++)
			for (t2 = 0; t2 < 26; t2++)
			for (t3 = 0; t3 < 51; t3++) {
				int hsn = ((x * 7 + t2 + n + v * 13) % 63) + 1;
				int t1r = hsn ^ x;
				int k = (t3 + n + v * 5) % 32;
				int t1 = t1r + 64 * k;
				int maio = (x * 5 + t2 * 3 + t3 + v * 11) % 64;
				int r = (t2 * 51 * 25 + t3 * 26 * 2) % 1326;
				uint32_t fn = (uint32_t)t1 * 1326 + r;
				uint16_t a = point(hsn, maio, n, fn);
				int mai = (int)a - MA_BASE;
				if (mai < 0 || mai > 254)
					mai = 255;
				putchar(mai);
			}
			fflush(stdout);
		} else if (line[0] == 'P') {
			int hsn, maio, n; unsigned fn, flags = 0;
			if (sscanf(line + 1, "%d %d %d %u %u", &hsn, &maio, &n, &fn, &flags) < 4)
				return 2;
			ma_flags = flags;
			printf("R %u\n", point(hsn, maio, n, fn));
			ma_flags = 0;
		}
	}
	return 0;
}

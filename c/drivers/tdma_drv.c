/* tdma_drv - op-script driver for the real firmware tdma_sched.c.
 * The harness owns struct l1s_state l1s; callbacks are harness functions that
 * print the parameters they were called with.
 *
 * ops (one per line):
 *   N <idx>                         new case: zero the scheduler, print "CASE <idx>"
 *   S <off> <prio> <p1> <p2> <p3>   tdma_schedule(off, cb_plain, ...)        -> "r S <rc>"
 *   C <off> <prio> <p1> <p2> <p3> <foff> <fprio> <fp1> <fp2> <fp3>
 *                                   tdma_schedule(off, cb_chain, ...); when it runs it
 *                                   schedules the follow-up                   -> "r S <rc>"
 *   T <off> <p3> tok...             tdma_schedule_set(); tok = i:<prio>:<p1>:<p2> | f  -> "r T <rc>"
 *   X                               tdma_sched_execute(): "c <p1> <p2> <p3>" per callback
 *                                   ("n <rc>" after a chain callback's nested schedule), "r X <rc>"
 *   A                               tdma_sched_advance()
 *   R                               tdma_sched_reset()
 *   G <fn> <p3> tok...              sched_gsmtime(set, fn, p3) (one-shot at an absolute GSM time)  -> "r G <rc>"
 *   E <fn>                          sched_gsmtime_execute(fn)                                       -> "r E <rc>"
 */
#include <stdio.h>
#include <stdlib.h>
#include <string.h>
#include <stdint.h>

#include <layer1/sync.h>
#include <layer1/tdma_sched.h>
#include <layer1/sched_gsmtime.h>

struct l1s_state l1s;

/* sets handed to sched_gsmtime() must stay valid until they fire: kept until the next case */
static struct tdma_sched_item *kept[4096];
static int nkept;

struct follow { int used; int off, prio, p1, p2, p3; };
static struct follow follow[65536];

static int cb_plain(uint8_t p1, uint8_t p2, uint16_t p3)
{
	printf("c %u %u %u\n", p1, p2, p3);
	return 0;
}

static int cb_chain(uint8_t p1, uint8_t p2, uint16_t p3)
{
	struct follow *f = &follow[p3];
	int rc;
	printf("c %u %u %u\n", p1, p2, p3);
	if (f->used) {
		rc = tdma_schedule(f->off, cb_plain, f->p1, f->p2, f->p3, f->prio);
		printf("n %d\n", rc);
	}
	return 0;
}

/* everything in l1s outside the scheduler is painted; the scheduler must never write there */
static int paint_intact(void)
{
	const uint8_t *p = (const uint8_t *) &l1s, *a = (const uint8_t *) &l1s.tdma_sched;
	size_t i;
	for (i = 0; i < sizeof(l1s); i++) {
		if (p + i >= a && p + i < a + sizeof(l1s.tdma_sched))
			continue;
		if (p[i] != 0xa5)
			return (int) (p + i - a);
	}
	return 0x7fffffff;
}

int main(void)
{
	static char line[8192];
	memset(&l1s, 0xa5, sizeof(l1s));
	memset(&l1s.tdma_sched, 0, sizeof(l1s.tdma_sched));
	sched_gsmtime_init();
	while (fgets(line, sizeof(line), stdin)) {
		int off, prio, p1, p2, p3, rc;
		switch (line[0]) {
		case 'N':
			memset(&l1s.tdma_sched, 0, sizeof(l1s.tdma_sched));
			memset(follow, 0, sizeof(follow));
			sched_gsmtime_reset();
			while (nkept > 0) free(kept[--nkept]);
			printf("CASE %d\n", atoi(line + 1));
			break;
		case 'S':
			if (sscanf(line + 1, "%d %d %d %d %d", &off, &prio, &p1, &p2, &p3) != 5) return 2;
			rc = tdma_schedule(off, cb_plain, p1, p2, p3, prio);
			printf("r S %d\n", rc);
			break;
		case 'C': {
			struct follow f;
			if (sscanf(line + 1, "%d %d %d %d %d %d %d %d %d %d", &off, &prio, &p1, &p2, &p3,
					&f.off, &f.prio, &f.p1, &f.p2, &f.p3) != 10) return 2;
			f.used = 1;
			follow[p3 & 0xffff] = f;
			rc = tdma_schedule(off, cb_chain, p1, p2, p3, prio);
			printf("r S %d\n", rc);
			break;
		}
		case 'T': {
			struct tdma_sched_item *set = calloc(64, sizeof(*set)); /* exact heap object: ASan sees overruns */
			int n = 0, consumed = 0;
			char *tok, *save;
			if (sscanf(line + 1, "%d %d%n", &off, &p3, &consumed) != 2) return 2;
			for (tok = strtok_r(line + 1 + consumed, " \n", &save); tok && n < 62; tok = strtok_r(NULL, " \n", &save)) {
				if (tok[0] == 'f') {
					set[n].cb = NULL;
					n++;
				} else if (tok[0] == 'i') {
					if (sscanf(tok, "i:%d:%d:%d", &prio, &p1, &p2) != 3) return 2;
					set[n].cb = cb_plain; set[n].prio = prio; set[n].p1 = p1; set[n].p2 = p2;
					set[n].p3 = 0xdead; /* must be replaced by the set call's p3 */
					n++;
				}
			}
			set[n].cb = &tdma_end_set;
			rc = tdma_schedule_set(off, set, p3);
			printf("r T %d\n", rc);
			free(set);
			break;
		}
		case 'G': {
			struct tdma_sched_item *set = calloc(64, sizeof(*set));
			int n = 0, consumed = 0;
			unsigned fn;
			char *tok, *save;
			if (sscanf(line + 1, "%u %d%n", &fn, &p3, &consumed) != 2) return 2;
			for (tok = strtok_r(line + 1 + consumed, " \n", &save); tok && n < 62; tok = strtok_r(NULL, " \n", &save)) {
				if (tok[0] == 'f') {
					set[n].cb = NULL;
					n++;
				} else if (tok[0] == 'i') {
					if (sscanf(tok, "i:%d:%d:%d", &prio, &p1, &p2) != 3) return 2;
					set[n].cb = cb_plain; set[n].prio = prio; set[n].p1 = p1; set[n].p2 = p2;
					set[n].p3 = 0xdead;
					n++;
				}
			}
			set[n].cb = &tdma_end_set;
			if (nkept < 4096) kept[nkept++] = set;
			rc = sched_gsmtime(set, fn, p3);
			printf("r G %d\n", rc);
			break;
		}
		case 'E': {
			unsigned fn;
			if (sscanf(line + 1, "%u", &fn) != 1) return 2;
			rc = sched_gsmtime_execute(fn);
			printf("r E %d\n", rc);
			break;
		}
		case 'X':
			rc = tdma_sched_execute();
			printf("r X %d\n", rc);
			break;
		case 'A':
			tdma_sched_advance();
			break;
		case 'R':
			tdma_sched_reset();
			break;
		}
		{
			int off_bad = paint_intact();
			if (off_bad != 0x7fffffff) {
				printf("CORRUPT %d\n", off_bad);
				memset(&l1s, 0xa5, (size_t) ((uint8_t *) &l1s.tdma_sched - (uint8_t *) &l1s));
				memset((uint8_t *) &l1s.tdma_sched + sizeof(l1s.tdma_sched), 0xa5,
					sizeof(l1s) - (size_t) ((uint8_t *) &l1s.tdma_sched - (uint8_t *) &l1s) - sizeof(l1s.tdma_sched));
			}
		}
		fflush(stdout);
	}
	return 0;
}

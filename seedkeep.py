#!/venv/bin/python
# usage: seedkeep.py <property id> <variant> <caught_by (comma list or 'none')> <needs text>
# Archives a confirmed sub-agent change under /verif/seeded/<id>-<variant>/.
import json, os, shutil, sys, glob
pid, var, caught, needs = sys.argv[1:5]
src = "/tmp/seed/%s.out" % pid
dst = "/verif/seeded/%s-%s" % (pid, var)
os.makedirs(dst, exist_ok = True)
shutil.copy(os.path.join(src, var + ".patch.diff"), os.path.join(dst, "patch.diff"))
demos = []
for f in glob.glob(os.path.join(src, var + ".*")) + glob.glob(os.path.join(src, var + "_*")) + glob.glob(os.path.join(src, var.lower() + "*")):
	b = os.path.basename(f)
	if b.endswith(".patch.diff") or os.path.isdir(f):
		continue
	shutil.copy(f, os.path.join(dst, b))
	demos.append(b)
log = "/tmp/seed/%s.%s.demo.log" % (pid, var)
meta = {
	"property": pid,
	"variant": var,
	"origin": "independent sub-agent given only the property text and a scratch worktree",
	"needs_to_manifest": needs,
	"files": sorted(set(demos)),
	"confirmed": {
		"how": "seedeval.sh: scratch worktree /tmp/mut at /repo HEAD; demo on clean tree, git apply, baseline pytest, demo with patch, "
		       "VERIF_REPO=/tmp/mut ./check <id> --tier quick; worktree reset afterwards",
		"baseline_tests_with_patch": "47 passed (+/- the timing-dependent clck_gen test)",
		"demo_clean_rc": 0, "demo_patched_rc": "non-zero",
	},
	"caught_by": [] if caught == "none" else caught.split(","),
}
with open(os.path.join(dst, "meta.json"), "w") as f:
	json.dump(meta, f, indent = 1)
print("kept", dst, meta["files"])

#!/bin/sh
# usage: seedeval.sh <property id> <variant> [check ids to run, default the property's own] 
# Evaluates a sub-agent's seeded change in the scratch worktree $MUT (never in /repo).
MUT=${MUT:-/tmp/mut}; id=$1; var=$2; shift 2; prop=C$(echo $id | tr -d "A-Z"); checks=${*:-$prop}
out=/tmp/seed/$id.out
cd $MUT && git checkout -q -- . && git clean -qfd
demo() { if [ -f $out/$var.demo.py ]; then timeout 600 /venv/bin/python $out/$var.demo.py $MUT >/tmp/seed/$id.$var.demo.log 2>&1; else timeout 600 sh $out/$var.demo.sh $MUT >/tmp/seed/$id.$var.demo.log 2>&1; fi; echo $?; }
echo "== $id-$var"
echo "demo on clean tree: rc=$(demo)"
git apply $out/$var.patch.diff || { echo "PATCH DOES NOT APPLY"; exit 1; }
git diff --stat | tail -1
echo "pytest: $(/venv/bin/python -m pytest -q -p no:cacheprovider --timeout=900 2>&1 | tail -1)"
echo "demo with patch: rc=$(demo)"
cd /verif
for c in $checks; do
  VERIF_REPO=$MUT ./check $c --tier quick 2>&1 | grep -E "VIOLATION|what:|INCONCLUSIVE|KNOWN| held | VIOLATED| inconclusive" | head -7
done
cd $MUT && git checkout -q -- . && git clean -qfd

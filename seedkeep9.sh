#!/bin/sh
# usage: seedkeep9.sh <Znn> <variant> <caught_by comma list|none> <needs text>   (round 9)
/verif/seedkeep.py "$1" "$2" "$3" "$4" >/dev/null
/venv/bin/python - "$1" "$2" <<'P'
import json, sys
pid, var = sys.argv[1:3]
p = "/verif/seeded/%s-%s/meta.json" % (pid, var)
m = json.load(open(p))
m["property"] = "C" + pid[1:]
m["id"] = "%s-%s" % (pid, var)
m["round"] = 9
json.dump(m, open(p, "w"), indent = 1)
print("kept", m["id"])
P

#!/bin/sh
# usage: refeval.sh <agent id (R1|R2)> <n>  - applies a behaviour-preserving refactoring in a scratch worktree and runs
# every check whose property anchors a touched file (plus a fixed set); any VIOLATION / non-zero exit is a false alarm.
id=$1; n=$2   # R1..R4
wt=/tmp/rf/$id.$n
patch=/tmp/seed/$id.out/$n.patch.diff
[ -f $patch ] || { echo "$id.$n: no patch"; exit 0; }
git -C /repo worktree remove --force $wt 2>/dev/null
mkdir -p /tmp/rf && git -C /repo worktree add -q --detach $wt HEAD
cd $wt && git apply $patch || { echo "$id.$n: PATCH DOES NOT APPLY"; exit 0; }
files=$(git diff --name-only)
checks=$(/venv/bin/python - $files <<'PY'
import json,sys
files=sys.argv[1:]
out=set()
for l in open('/verif/properties.jsonl'):
    p=json.loads(l)
    if any(f in p['anchors']['files'] for f in files): out.add(p['id'])
# modules used by everything in the simulator
core={'src/target/trx_toolkit/udp_link.py','src/target/trx_toolkit/data_msg.py','src/target/trx_toolkit/gsm_shared.py','src/target/trx_toolkit/transceiver.py','src/target/trx_toolkit/fake_trx.py'}
if any(f in core for f in files): out |= {'C02','C03','C05','C10','C12','C14','C18'}
print(" ".join(sorted(out)))
PY
)
echo "== $id.$n files: $files"
echo "   pytest: $(/venv/bin/python -m pytest -q -p no:cacheprovider --timeout=900 2>&1 | tail -1)"
cd /verif
for c in $checks; do
  out=$(VERIF_REPO=$wt ./check $c --tier quick 2>&1); rc=$?
  echo "   $c rc=$rc $(echo "$out" | tail -1 | cut -c1-110)"
  [ $rc -ne 0 ] && echo "$out" | grep -E "VIOLATION|what:|INCONCLUSIVE" | head -6
done
git -C /repo worktree remove --force $wt

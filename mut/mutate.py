#!/venv/bin/python
# Mutation analysis over the mechanism sites the properties name (anchors.mechanism[].where):
# single-token mutants are generated for every line of those ranges (mapped from the pinned commit to
# /repo's HEAD), each is applied in a scratch worktree (never in /repo), filtered by the repository's own
# tests, and run against the quick tier of the property's check.  Survivors are listed for triage.
#
#   mutate.py gen  > mut/mutants.jsonl
#   mutate.py run  mut/mutants.jsonl  <workers>   -> mut/results.jsonl (appended; finished ids are skipped)
#   mutate.py report
import difflib, json, os, re, subprocess, sys, hashlib

VERIF = os.path.dirname(os.path.dirname(os.path.abspath(__file__)))
REPO = "/repo"
PINNED = "4f0b2b5"
WT = "/tmp/mw"


def sh(cmd, **kw):
	return subprocess.run(cmd, shell = True, stdout = subprocess.PIPE, stderr = subprocess.STDOUT, text = True, **kw)


def line_map(path):
	""" original (pinned) line number -> HEAD line number, for unchanged lines """
	old = sh("git -C %s show %s:%s" % (REPO, PINNED, path)).stdout.split("\n")
	new = open(os.path.join(REPO, path), errors = "replace").read().split("\n")
	sm = difflib.SequenceMatcher(None, old, new, autojunk = False)
	m = {}
	for tag, i1, i2, j1, j2 in sm.get_opcodes():
		if tag == "equal":
			for k in range(i2 - i1):
				m[i1 + k + 1] = j1 + k + 1
	return m, new


LOGLINE = re.compile(r"^\s*(log\.|LOGP|printf|puts\(|fprintf|cons_puts|printd|LOGPFSML|LOGP_)")


def strip_code(line, py):
	""" the part of the line that is code (no trailing comment); very rough """
	if py:
		# ignore '#' inside strings: only cut when no quote precedes
		i = line.find("#")
		if i >= 0 and line[:i].count('"') % 2 == 0 and line[:i].count("'") % 2 == 0:
			return line[:i]
		return line
	i = line.find("//")
	if i >= 0:
		line = line[:i]
	i = line.find("/*")
	if i >= 0:
		line = line[:i]
	return line


def mutants_of_line(line, py):
	code = strip_code(line, py)
	tail = line[len(code):]
	s = code.strip()
	out = []
	if not s or s.startswith(("*", "/*", "#", "//", "import ", "from ", '"""', "'''")) or LOGLINE.match(s):
		return out
	if not py and (s.startswith("#") or s in ("{", "}", "};")):
		return out

	def sub(pattern, repl, name, count = 1):
		for m in list(re.finditer(pattern, code))[:3]:
			new = code[:m.start()] + (repl(m) if callable(repl) else m.expand(repl)) + code[m.end():]
			if new != code:
				out.append((name, new + tail))

	# strings: do not touch what is inside quotes (skip lines that are mostly string)
	if code.count('"') >= 2 or code.count("'") >= 2:
		nostr = re.sub(r'"[^"]*"|\'[^\']*\'', lambda m: "\x00" * len(m.group(0)), code)
	else:
		nostr = code
	saved, code = code, nostr

	sub(r"<=", "<", "le->lt"); sub(r">=", ">", "ge->gt")
	sub(r"(?<![<\-=!>])<(?![<=])", "<=", "lt->le"); sub(r"(?<![>\-=!<])>(?![>=])", ">=", "gt->ge")
	sub(r"==", "!=", "eq->ne"); sub(r"!=", "==", "ne->eq")
	sub(r"(?<=[\w\)\]]) \+ (?=[\w\(])", " - ", "add->sub"); sub(r"(?<=[\w\)\]]) - (?=[\w\(])", " + ", "sub->add")
	sub(r"(?<![\w.])(\d+)(?![\w.xX])", lambda m: str(int(m.group(1)) + 1), "const+1")
	sub(r"(?<![\w.])([1-9]\d*)(?![\w.xX])", lambda m: str(int(m.group(1)) - 1), "const-1")
	if py:
		sub(r"\band\b", "or", "and->or"); sub(r"\bor\b", "and", "or->and")
		sub(r"\bnot ", "", "not-removed")
		sub(r"\bTrue\b", "False", "true->false"); sub(r"\bFalse\b", "True", "false->true")
		sub(r"\bis not None\b", "is None", "isnot->is"); sub(r"\bis None\b", "is not None", "is->isnot")
		m = re.match(r"^(\s*)(if|elif|while) (.+):\s*$", code)
		if m:
			out.append(("cond-negated", "%s%s not (%s):" % (m.group(1), m.group(2), m.group(3)) + tail))
		m = re.match(r"^(\s*)([A-Za-z_][\w\.\[\]]*\s*(=|\+=|-=)[^=].*|[A-Za-z_][\w\.]*\(.*\))\s*$", code)
		if m and not code.rstrip().endswith((",", "(", "\\")) and code.count("(") == code.count(")"):
			out.append(("stmt-deleted", m.group(1) + "pass" + tail))
	else:
		sub(r"&&", "||", "and->or"); sub(r"\|\|", "&&", "or->and")
		sub(r"\+\+", "--", "inc->dec"); sub(r"(?<=[\w\)]) & (?=[\w\(~])", " | ", "band->bor"); sub(r"(?<=[\w\)]) \| (?=[\w\(])", " & ", "bor->band")
		sub(r"<<", ">>", "shl->shr"); sub(r">>", "<<", "shr->shl")
		m = re.match(r"^(\s*)(if|while) \((.+)\)(\s*\{?)\s*$", code)
		if m and m.group(3).count("(") == m.group(3).count(")"):
			out.append(("cond-negated", "%s%s (!(%s))%s" % (m.group(1), m.group(2), m.group(3), m.group(4)) + tail))
		m = re.match(r"^(\s+)([A-Za-z_\*][\w\.\->\[\]\*]*\s*(=|\+=|-=|\|=|&=|\^=)[^=].*;|[A-Za-z_][\w]*\(.*\);)\s*$", code)
		if m and code.count("(") == code.count(")"):
			out.append(("stmt-deleted", m.group(1) + ";" + tail))
	if os.environ.get("MUT_OPS") == "2":
		# second operator set: structural rather than single-token
		out = []
		sub(r"\s*%\s*[A-Za-z_(][\w.()*/ ]*?(?=[)\],:;]|\s*$)", "", "modulo-removed")
		sub(r"\bmin\(", "max(", "min->max"); sub(r"\bmax\(", "min(", "max->min")
		sub(r"\[(\w+)\]", r"[\1 + 1]", "index+1"); sub(r"\[(\w+) - 1\]", r"[\1]", "index-1-removed")
		# swap the two arguments of a two-argument call
		sub(r"(\b[A-Za-z_][\w.]*)\(([\w.\[\]]+), ([\w.\[\]]+)\)", r"\1(\3, \2)", "args-swapped")
		sub(r"(?<=[\w\)\]]) // (?=[\w\(])", " % ", "div->mod"); sub(r"(?<=[\w\)\]]) \* (?=[\w\(])", " + ", "mul->add")
		if py:
			sub(r"\[::-1\]", "", "reversal-removed"); sub(r"\bin\b(?! range)", "not in", "in->notin") if " not in " not in code else None
			sub(r"\bbreak\b", "continue", "break->continue"); sub(r"\bcontinue\b", "break", "continue->break")
			sub(r"\breturn (\w[\w.]*)$", "return None", "return-none")
		else:
			sub(r"\bbreak;", "continue;", "break->continue") if "switch" not in code else None
			sub(r"\buint8_t\b", "int8_t", "u8->s8"); sub(r"\buint16_t\b", "uint8_t", "u16->u8"); sub(r"\buint32_t\b", "uint16_t", "u32->u16")
			sub(r"\bint (\w+)( =|;|,)", r"unsigned int \1\2", "int->unsigned")
	# restore string contents
	res = []
	for name, new in out:
		if "\x00" in new:
			# positions are preserved outside the mutated token only when lengths are equal: rebuild by splicing
			fixed = []
			j = 0
			# simple approach: map back char by char where placeholder
			src = saved + tail
			k = 0
			ok = True
			buf = list(new)
			# find placeholders runs and fill from the original at the same run order
			runs_new = [m.span() for m in re.finditer(r"\x00+", new)]
			runs_old = [m.span() for m in re.finditer(r"\x00+", nostr)]
			if len(runs_new) != len(runs_old):
				continue
			for (a, b), (c, d) in zip(runs_new, runs_old):
				if b - a != d - c:
					ok = False
					break
				buf[a:b] = list(saved[c:d])
			if not ok:
				continue
			new = "".join(buf)
		res.append((name, new))
	# dedupe
	seen = set()
	final = []
	for name, new in res:
		if new not in seen and new != line:
			seen.add(new)
			final.append((name, new))
	return final[:8]


def gen():
	props = [json.loads(l) for l in open(os.path.join(VERIF, "properties.jsonl"))]
	maps = {}
	done = set()
	for p in props:
		for mech in p["anchors"].get("mechanism", []):
			sites = []
			for part in mech["where"].split(";"):
				m0 = re.match(r"^(\S+?):([\d,\-]+)$", part.strip())
				if not m0 or not os.path.exists(os.path.join(REPO, m0.group(1))):
					continue
				for rng in m0.group(2).split(","):
					mm = re.match(r"^(\d+)(?:-(\d+))?$", rng)
					if mm:
						sites.append((m0.group(1), int(mm.group(1)), int(mm.group(2) or mm.group(1))))
			for (path, a, b) in sites:
				if path not in maps:
					maps[path] = line_map(path)
				lm, new = maps[path]
				py = path.endswith(".py")
				heads = sorted({lm[k] for k in range(a, b + 1) if k in lm})
				if not heads:
					continue
				# also the HEAD lines inside the span that are new (inserted by repairs)
				heads = list(range(heads[0], heads[-1] + 1))
				for ln in heads:
					if (p["id"], path, ln) in done:
						continue
					done.add((p["id"], path, ln))
					line = new[ln - 1]
					for name, mut in mutants_of_line(line, py):
						mid = hashlib.sha1(("%s|%s|%d|%s" % (p["id"], path, ln, mut)).encode()).hexdigest()[:10]
						print(json.dumps({"id": mid, "property": p["id"], "file": path, "line": ln, "op": name,
							"old": line, "new": mut, "mechanism": mech["name"][:80]}))
					if os.environ.get("MUT_OPS") == "2" and ln + 1 <= len(new):
						# swap two consecutive simple statements of the same indentation
						a, b = line, new[ln]
						ia, ib = len(a) - len(a.lstrip()), len(b) - len(b.lstrip())
						simple = lambda x: re.match(r"^\s*[A-Za-z_][\w.\[\]]*\s*(=|\+=|-=)[^=]", x) is not None and not x.rstrip().endswith((",", "(", "\\", "{"))
						if ia == ib and simple(a) and simple(b) and a.strip() != b.strip() and "sched_mframe" not in path:
							mid = hashlib.sha1(("%s|%s|%d|swap" % (p["id"], path, ln)).encode()).hexdigest()[:10]
							print(json.dumps({"id": mid, "property": p["id"], "file": path, "line": ln, "op": "stmts-swapped",
								"old": line, "new": b + "\n" + a, "old2": b, "mechanism": mech["name"][:80]}))


def prepare_worker(k):
	d = "%s/%d" % (WT, k)
	sh("git -C %s worktree remove --force %s" % (REPO, d))
	os.makedirs(WT, exist_ok = True)
	r = sh("git -C %s worktree add -q --detach %s HEAD" % (REPO, d))
	return d


def evaluate(mu, d):
	path = os.path.join(d, mu["file"])
	src = open(path, errors = "replace").read().split("\n")
	if src[mu["line"] - 1] != mu["old"]:
		return {"id": mu["id"], "status": "stale"}
	if "old2" in mu:
		if src[mu["line"]] != mu["old2"]:
			return {"id": mu["id"], "status": "stale"}
		src[mu["line"] - 1:mu["line"] + 1] = mu["new"].split("\n")
	else:
		src[mu["line"] - 1] = mu["new"]
	open(path, "w").write("\n".join(src))
	try:
		if mu["file"].endswith(".py"):
			r = sh("/venv/bin/python -m py_compile %s" % path)
			if r.returncode != 0:
				return {"id": mu["id"], "status": "invalid"}
			r = sh("cd %s && timeout 300 /venv/bin/python -m pytest -q -x -p no:cacheprovider --timeout=120 "
				"--deselect src/target/trx_toolkit/test_clck_gen.py::CLCKGen_Test::test_no_timing_error_accumulated 2>&1 | tail -1" % d)
			if " failed" in r.stdout or "error" in r.stdout.lower():
				return {"id": mu["id"], "status": "killed-by-tests", "tests": r.stdout.strip()[-80:]}
		env = dict(os.environ, VERIF_REPO = d)
		worst = None
		for chk in mu.get("checks") or [mu["property"]]:
			r = subprocess.run(["./check", chk, "--tier", "quick"], cwd = VERIF, env = env, stdout = subprocess.PIPE,
				stderr = subprocess.STDOUT, text = True, timeout = 1500)
			what = [l.strip() for l in r.stdout.split("\n") if l.strip().startswith("what:")][:1]
			last = r.stdout.strip().split("\n")[-1][-120:]
			st = {0: "survived", 1: "killed", 2: "inconclusive"}.get(r.returncode, "rc%d" % r.returncode)
			if r.returncode == 2 and ("build of" in r.stdout or "BuildFailed" in r.stdout):
				st = "invalid"
			res = {"id": mu["id"], "status": st, "what": what[0][:200] if what else "", "last": last, "by": chk}
			if st in ("killed", "invalid"):
				return res
			if worst is None or st == "inconclusive":
				worst = res
		return worst
	except subprocess.TimeoutExpired:
		return {"id": mu["id"], "status": "timeout"}
	finally:
		sh("git -C %s checkout -q -- . && git -C %s clean -qfd" % (d, d))


def worker(k, items, outpath):
	d = prepare_worker(k)
	with open(outpath, "a") as out:
		for mu in items:
			res = evaluate(mu, d)
			res.update({k2: mu[k2] for k2 in ("property", "file", "line", "op")})
			out.write(json.dumps(res) + "\n")
			out.flush()
	sh("git -C %s worktree remove --force %s" % (REPO, d))


def run(path, nworkers, only = None):
	import multiprocessing
	mus = [json.loads(l) for l in open(path)]
	if only:
		mus = [m for m in mus if m["property"] in only]
	outpath = os.path.join(VERIF, "mut", "results.files.jsonl" if "files" in path else "results.ops2.jsonl" if "ops2" in path else "results.extra.jsonl" if "extra" in path else "results.jsonl")
	done = set()
	if os.path.exists(outpath):
		done = {json.loads(l)["id"] for l in open(outpath)}
	todo = [m for m in mus if m["id"] not in done]
	# interleave so that slow checks are spread over the workers
	chunks = [todo[i::nworkers] for i in range(nworkers)]
	procs = []
	for k, items in enumerate(chunks):
		p = multiprocessing.Process(target = worker, args = (k, items, outpath + ".w%d" % k))
		p.start()
		procs.append(p)
	for p in procs:
		p.join()
	with open(outpath, "a") as out:
		for k in range(nworkers):
			f = outpath + ".w%d" % k
			if os.path.exists(f):
				out.write(open(f).read())
				os.unlink(f)


def report():
	from collections import Counter
	res = [json.loads(l) for l in open(os.path.join(VERIF, "mut", "results.jsonl"))]
	c = Counter((r["property"], r["status"]) for r in res)
	props = sorted({r["property"] for r in res})
	sts = ["killed", "killed-by-tests", "survived", "inconclusive", "invalid", "stale", "timeout"]
	print("%-5s " % "prop" + " ".join("%16s" % s for s in sts))
	for p in props:
		print("%-5s " % p + " ".join("%16d" % c[(p, s)] for s in sts))
	print("%-5s " % "all" + " ".join("%16d" % sum(c[(p, s)] for p in props) for s in sts))


if __name__ == "__main__":
	if sys.argv[1] == "gen":
		gen()
	elif sys.argv[1] == "run":
		run(sys.argv[2], int(sys.argv[3]), sys.argv[4].split(",") if len(sys.argv) > 4 else None)
	elif sys.argv[1] == "report":
		report()


def cross():
	""" survivors are run against every other check that anchors the mutated file """
	import multiprocessing
	props = [json.loads(l) for l in open(os.path.join(VERIF, "properties.jsonl"))]
	by_file = {}
	for p in props:
		for f in p["anchors"]["files"]:
			by_file.setdefault(f, []).append(p["id"])
	res = {}
	for l in open(os.path.join(VERIF, "mut", "results.jsonl")):
		r = json.loads(l)
		res[r["id"]] = r
	mus = {json.loads(l)["id"]: json.loads(l) for l in open(os.path.join(VERIF, "mut", "mutants.run.jsonl"))}
	todo = []
	for i, r in res.items():
		if r["status"] != "survived":
			continue
		m = mus[i]
		for other in by_file.get(m["file"], []):
			if other != m["property"]:
				x = dict(m)
				x["property"] = other
				x["id"] = m["id"] + "+" + other
				x["orig"] = m["id"]
				todo.append(x)
	outpath = os.path.join(VERIF, "mut", "cross.jsonl")
	done = set()
	if os.path.exists(outpath):
		done = {json.loads(l)["id"] for l in open(outpath)}
	todo = [t for t in todo if t["id"] not in done]
	n = 12
	procs = []
	for k in range(n):
		p = multiprocessing.Process(target = worker, args = (k, todo[k::n], outpath + ".w%d" % k))
		p.start()
		procs.append(p)
	for p in procs:
		p.join()
	with open(outpath, "a") as out:
		for k in range(n):
			f = outpath + ".w%d" % k
			if os.path.exists(f):
				out.write(open(f).read())
				os.unlink(f)


if __name__ == "__main__" and sys.argv[1] == "cross":
	cross()


def gen_files():
	""" second sweep: every line of the anchored source files that the mechanism ranges did not cover; each mutant is
	    tried against all checks anchoring the file (cheapest first) until one reports a violation """
	props = [json.loads(l) for l in open(os.path.join(VERIF, "properties.jsonl"))]
	by_file = {}
	for p in props:
		for f in p["anchors"]["files"]:
			by_file.setdefault(f, []).append(p["id"])
	done = set()
	for l in open(os.path.join(VERIF, "mut", "mutants.jsonl")):
		m = json.loads(l)
		done.add((m["file"], m["line"]))
	skip = ("sched_mframe.c", "gsm48_rr.c", "osmocon.c", "sched_trx.c", "sysinfo.c", ".h")
	cost = {"C01": 4, "C02": 3, "C03": 22, "C04": 6, "C05": 6, "C06": 30, "C07": 5, "C08": 18, "C09": 14, "C10": 8, "C11": 4,
		"C12": 18, "C13": 2, "C14": 10, "C15": 60, "C16": 9, "C17": 5, "C18": 12, "C19": 13, "C20": 5}
	for path in sorted(by_file):
		if path.endswith(skip) or not os.path.exists(os.path.join(REPO, path)):
			continue
		py = path.endswith(".py")
		lines = open(os.path.join(REPO, path), errors = "replace").read().split("\n")
		checks = sorted(by_file[path], key = lambda c: cost[c])
		in_main = False
		for ln, line in enumerate(lines, 1):
			if py and line.startswith("if __name__"):
				break
			if (path, ln) in done:
				continue
			for name, mut in mutants_of_line(line, py):
				mid = hashlib.sha1(("F|%s|%d|%s" % (path, ln, mut)).encode()).hexdigest()[:10]
				print(json.dumps({"id": mid, "property": checks[0], "checks": checks, "file": path, "line": ln, "op": name,
					"old": line, "new": mut, "mechanism": "(outside the listed mechanism ranges)"}))


if __name__ == "__main__" and sys.argv[1] == "genfiles":
	gen_files()

#!/bin/sh
# Diagnostic, not a check: which lines of the repository's C files do the quick workloads execute?
# usage: mut/ccov.sh [check ids]     (report on stdout; scratch data under /tmp/ccov, removed at the end)
cd "$(dirname "$0")/.." || exit 1
checks=${*:-C04 C05 C06 C07 C08 C11 C14 C19 C20}
rm -rf /tmp/ccov; mkdir -p /tmp/ccov
for c in $checks; do
  VERIF_CCOV=/tmp/ccov VERIF_NO_MSAN=1 VERIF_REPO=/repo/. ./check $c --tier quick 2>&1 | tail -1
done
llvm-profdata-14 merge -sparse /tmp/ccov/*.profraw -o /tmp/ccov/all.profdata 2>/tmp/ccov/merge.err
objs=""
for d in build/*.[0-9]*; do
  [ -f $d/.ccov ] || continue
  for f in $(find $d -type f -perm -u+x ! -name "*.msan" ! -name "*.o" ! -name "*.sh" 2>/dev/null); do
    if file $f | grep -q ELF; then objs="$objs -object $f"; fi
  done
  kept="$kept $d"
done
first=$(echo $objs | cut -d" " -f2); rest=$(echo $objs | cut -d" " -f3-)
llvm-cov-14 report -instr-profile /tmp/ccov/all.profdata $first $rest 2>/dev/null | grep -E "^Filename|^-|/repo/|TOTAL" 
echo
echo "== lines never executed (repository files only)"
llvm-cov-14 show -instr-profile /tmp/ccov/all.profdata $first $rest -show-line-counts-or-regions=0 2>/dev/null > /tmp/ccov/show.txt
/venv/bin/python - <<'P'
import re
cur=None; miss={}
for l in open('/tmp/ccov/show.txt', errors='replace'):
    m=re.match(r'^(/\S+):$', l)
    if m: cur=m.group(1); continue
    m=re.match(r'^\s*(\d+)\|\s*0\|(.*)$', l)
    if m and cur and cur.startswith('/repo/'):
        miss.setdefault(cur,[]).append(int(m.group(1)))
def ranges(a):
    out=[]; s=p=None
    for x in a:
        if s is None: s=p=x
        elif x==p+1: p=x
        else: out.append((s,p)); s=p=x
    if s is not None: out.append((s,p))
    return ",".join("%d-%d"%r if r[0]!=r[1] else str(r[0]) for r in out)
for f in sorted(miss): print(f, ranges(sorted(set(miss[f]))))
print()
print("== of those, inside the mechanism ranges the properties are anchored in")
import json
for l in open('properties.jsonl'):
    pr=json.loads(l)
    for mech in pr['anchors'].get('mechanism', []):
        for part in re.findall(r'(\S+?\.[ch]):([0-9,\-]+)', mech['where']):
            f='/repo/./'+part[0] if ('/repo/./'+part[0]) in miss else '/repo/'+part[0]
            hit=[]
            for rg in part[1].split(','):
                lo,_,hi=rg.partition('-'); lo=int(lo); hi=int(hi or lo)
                hit+=[x for x in miss.get(f,[]) if lo<=x<=hi]
            if hit: print(pr['id'], part[0], mech['name'][:60], '->', ranges(sorted(set(hit))))
P
for d in $kept; do rm -rf $d; done

#!/bin/sh
# usage: seedcheck.sh <seeded id ...>   - full re-confirmation of kept seeded changes from /verif/seeded/<id>/ against /repo's HEAD
# (scratch worktree /tmp/mut): demonstration passes on the clean tree, patch applies, baseline tests pass, demonstration fails with
# the patch, the listed check reports a VIOLATION.
git -C /repo worktree list | grep -q /tmp/mut || git -C /repo worktree add -q --detach /tmp/mut HEAD
git -C /tmp/mut reset -q --hard $(git -C /repo rev-parse HEAD); git -C /tmp/mut clean -qfd
for id in "$@"; do
  d=/verif/seeded/$id
  demo=$(ls $d/*.demo.py $d/*.demo.sh 2>/dev/null | head -1)
  rundemo() { case $demo in *.py) timeout 600 /venv/bin/python $demo /tmp/mut >/dev/null 2>&1;; *) timeout 600 sh $demo /tmp/mut >/dev/null 2>&1;; esac; echo $?; }
  clean=$(rundemo)
  cd /tmp/mut
  if ! git apply $d/patch.diff 2>/dev/null; then echo "$id NOAPPLY"; continue; fi
  tests=$(/venv/bin/python -m pytest -q -p no:cacheprovider --timeout=900 2>&1 | tail -1 | grep -o "[0-9]* passed")
  patched=$(rundemo)
  props=$(/venv/bin/python -c "import json;m=json.load(open('$d/meta.json'));print(' '.join(m['caught_by']) or m['property'])")
  res=MISSED
  cd /verif
  for c in $props; do
    out=$(VERIF_REPO=/tmp/mut ./check $c --tier quick 2>&1); rc=$?
    if [ $rc -eq 1 ] && echo "$out" | grep -q "^VIOLATION"; then res="CAUGHT($c)"; break; fi
  done
  echo "$id demo clean rc=$clean patched rc=$patched; tests: $tests; $res"
  cd /tmp/mut && git checkout -q -- . && git clean -qfd
done

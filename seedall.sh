#!/bin/sh
# Re-evaluates every kept seeded change against the checks as they stand (scratch worktree /tmp/mut at /repo HEAD).
# One line per change: id, property, CAUGHT / MISSED / NOAPPLY.
git -C /repo worktree list | grep -q /tmp/mut || git -C /repo worktree add -q --detach /tmp/mut HEAD
git -C /tmp/mut checkout -q -- . ; git -C /tmp/mut reset -q --hard $(git -C /repo rev-parse HEAD)
for d in /verif/seeded/*/; do
  id=$(basename $d)
  props=$(/venv/bin/python -c "import json;m=json.load(open('$d/meta.json'));print(' '.join(m['caught_by']) or m['property'])")
  cd /tmp/mut && git checkout -q -- . && git clean -qfd
  if ! git apply $d/patch.diff 2>/dev/null; then echo "$id NOAPPLY"; continue; fi
  res=MISSED
  cd /verif
  for c in $props; do
    out=$(VERIF_REPO=/tmp/mut ./check $c --tier quick 2>&1); rc=$?
    if [ $rc -eq 1 ] && echo "$out" | grep -q "^VIOLATION"; then res="CAUGHT($c)"; break; fi
  done
  echo "$id $res"
done
cd /tmp/mut && git checkout -q -- . && git clean -qfd
